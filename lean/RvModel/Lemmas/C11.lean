import RvModel.RealInst
import RvModel.ExtInst
import RvModel.Gen.Defs
import RvModel.Hand.Mixture
import RvModel.Lemmas.C13A
import Mathlib.Tactic.Ring
import Mathlib.Tactic.Linarith
import Mathlib.Tactic.FieldSimp
import Mathlib.Analysis.SpecialFunctions.Log.Basic
import Mathlib.Analysis.SpecialFunctions.Exp
import Mathlib.Tactic.NormNum.OfScientific
/-!
  Helper lemmas for Props/C11A.lean (mixture = weighted combination of its components).
-/
open Real Hand.Mixture

namespace C11

variable {Ob : Type}

/-! ### literals on `R` -/

theorem R_zero_val : ((0.0 : R)).val = 0 := by rw [R.sci_val]; norm_num
theorem R_one_val : ((1.0 : R)).val = 1 := by rw [R.sci_val]; norm_num
theorem R_tol_val : ((1E-12 : R)).val = 1e-12 := by rw [R.sci_val]

/-- real-valued sum `Σ wₖ · g(cₖ)` over the (weight, component) pairs of a mixture -/
def wsum (ps : List (R × Comp R Ob)) (g : Comp R Ob → ℝ) : ℝ := (ps.map (fun p => p.1.val * g p.2)).sum

@[simp] theorem wsum_nil (g : Comp R Ob → ℝ) : wsum ([] : List (R × Comp R Ob)) g = 0 := rfl
@[simp] theorem wsum_cons (p : R × Comp R Ob) (t : List (R × Comp R Ob)) (g : Comp R Ob → ℝ) :
    wsum (p :: t) g = p.1.val * g p.2 + wsum t g := by simp [wsum]

theorem wsum_add (ps : List (R × Comp R Ob)) (g h : Comp R Ob → ℝ) :
    wsum ps (fun c => g c + h c) = wsum ps g + wsum ps h := by
  induction ps with
  | nil => simp
  | cons p t ih => simp only [wsum_cons, ih]; ring

/-! ### the weighted folds of `f`, `cdf`, `pdf` -/

theorem fold_mulAdd_val (g : Comp R Ob → R) (ps : List (R × Comp R Ob)) (a0 : R) :
    (ps.foldl (fun acc p => mulAdd (g p.2) p.1 acc) a0).val = a0.val + wsum ps (fun c => (g c).val) := by
  rw [C13.foldl_add_val _ (fun p : R × Comp R Ob => p.1.val * (g p.2).val)
    (fun acc p => by simp only [mulAdd, R.add_val, R.mul_val]; ring)]
  rfl

theorem fold_mulAdd_if_val (s : Comp R Ob → Bool) (g : Comp R Ob → R) (ps : List (R × Comp R Ob)) (a0 : R) :
    (ps.foldl (fun acc p => if s p.2 then mulAdd p.1 (g p.2) acc else acc) a0).val =
      a0.val + wsum ps (fun c => if s c then (g c).val else 0) := by
  rw [C13.foldl_add_val _ (fun p : R × Comp R Ob => p.1.val * (if s p.2 then (g p.2).val else 0))
    (fun acc p => by
      by_cases h : s p.2 <;> simp [h, mulAdd, R.add_val, R.mul_val, add_comm])]
  rfl

/-! ### `mean` and `variance`: `try_fold` over `Option` -/

/-- every component of the list has a mean -/
def AllMean (ps : List (R × Comp R Ob)) : Prop := ∀ p ∈ ps, p.2.mean ≠ none
/-- every component of the list has a mean and a variance -/
def AllMeanVar (ps : List (R × Comp R Ob)) : Prop := ∀ p ∈ ps, p.2.mean ≠ none ∧ p.2.variance ≠ none

/-- value of an optional real, `0` when absent -/
def oval (o : Option R) : ℝ := (o.getD ⟨0⟩).val
@[simp] theorem oval_some (r : R) : oval (some r) = r.val := rfl
@[simp] theorem oval_none : oval none = 0 := rfl

open Classical in
theorem mean_fold (ps : List (R × Comp R Ob)) (s : R) :
    (tryFoldO (fun grand (p : R × Comp R Ob) => p.2.mean.map (fun mu => mulAdd p.1 mu grand)) s ps).map R.val =
      if AllMean ps then some (s.val + wsum ps (fun c => oval c.mean)) else none := by
  induction ps generalizing s with
  | nil => simp [tryFoldO, AllMean]
  | cons p t ih =>
    cases hm : p.2.mean with
    | none =>
      have : ¬ AllMean (p :: t) := fun h => (h p (by simp)) hm
      simp [tryFoldO, hm, this]
    | some mu =>
      have e : AllMean (p :: t) ↔ AllMean t := by
        constructor
        · intro h q hq; exact h q (by simp [hq])
        · intro h q hq
          rcases List.mem_cons.mp hq with rfl | hq
          · simp [hm]
          · exact h q hq
      simp only [tryFoldO, hm, Option.map_some, ih, e, wsum_cons, oval_some, mulAdd, R.add_val, R.mul_val]
      split_ifs
      · congr 1; ring
      · rfl

open Classical in
theorem var_fold (ps : List (R × Comp R Ob)) (st : R × R × R) :
    (tryFoldO varStep st ps).map (fun s => (s.1.val, s.2.1.val, s.2.2.val)) =
      if AllMeanVar ps then
        some (st.1.val + wsum ps (fun c => oval c.mean * oval c.mean),
              st.2.1.val + wsum ps (fun c => oval c.variance),
              st.2.2.val + wsum ps (fun c => oval c.mean))
      else none := by
  induction ps generalizing st with
  | nil => simp [tryFoldO, AllMeanVar]
  | cons p t ih =>
    cases hm : p.2.mean with
    | none =>
      have : ¬ AllMeanVar (p :: t) := fun h => (h p (by simp)).1 hm
      simp [tryFoldO, varStep, hm, this]
    | some mu =>
      cases hv : p.2.variance with
      | none =>
        have : ¬ AllMeanVar (p :: t) := fun h => (h p (by simp)).2 hv
        simp [tryFoldO, varStep, hm, hv, this]
      | some v =>
        have e : AllMeanVar (p :: t) ↔ AllMeanVar t := by
          constructor
          · intro h q hq; exact h q (by simp [hq])
          · intro h q hq
            rcases List.mem_cons.mp hq with rfl | hq
            · simp [hm, hv]
            · exact h q hq
        simp only [tryFoldO, varStep, hm, hv, ih, e, wsum_cons, oval_some, R.add_val, R.mul_val]
        split_ifs
        · congr 1
          refine Prod.ext (by ring) (Prod.ext (by ring) (by ring))
        · rfl

/-! ### `validate_weights` on `R` -/

theorem lt_zero_R (w : R) : RealLike.lt w (0.0 : R) = true ↔ w.val < 0 := by
  rw [R.lt_iff, R_zero_val]

theorem tryFoldE_nonneg (f : R → Nat × R → Except (Err R) R) (e : Nat × R → Err R)
    (hf : ∀ s p, f s p = if RealLike.lt p.2 (0.0 : R) then .error (e p) else .ok (s + p.2))
    (l : List (Nat × R)) (s : R) (h : ∀ p ∈ l, 0 ≤ p.2.val) :
    ∃ s', tryFoldE f s l = .ok s' ∧ s'.val = s.val + (l.map (fun p => p.2.val)).sum := by
  induction l generalizing s with
  | nil => exact ⟨s, rfl, by simp⟩
  | cons p t ih =>
    have hp : ¬ (RealLike.lt p.2 (0.0 : R) = true) := by
      rw [lt_zero_R]; exact not_lt.mpr (h p (by simp))
    obtain ⟨s', h1, h2⟩ := ih (s + p.2) (fun q hq => h q (by simp [hq]))
    refine ⟨s', ?_, ?_⟩
    · simp only [tryFoldE, hf, if_neg hp]; exact h1
    · rw [h2, R.add_val]; simp [add_assoc]

theorem tryFoldE_neg (f : R → Nat × R → Except (Err R) R) (e : Nat × R → Err R)
    (hf : ∀ s p, f s p = if RealLike.lt p.2 (0.0 : R) then .error (e p) else .ok (s + p.2))
    (l : List (Nat × R)) (s : R) (h : ∃ p ∈ l, p.2.val < 0) :
    ∃ p ∈ l, tryFoldE f s l = .error (e p) := by
  induction l generalizing s with
  | nil => obtain ⟨p, hp, _⟩ := h; exact absurd hp (by simp)
  | cons q t ih =>
    by_cases hq : q.2.val < 0
    · refine ⟨q, by simp, ?_⟩
      simp only [tryFoldE, hf, if_pos ((lt_zero_R _).mpr hq)]
    · have ht : ∃ p ∈ t, p.2.val < 0 := by
        obtain ⟨p, hp, hneg⟩ := h
        rcases List.mem_cons.mp hp with rfl | hp
        · exact absurd hneg hq
        · exact ⟨p, hp, hneg⟩
      obtain ⟨p, hp, h1⟩ := ih (s + q.2) ht
      refine ⟨p, by simp [hp], ?_⟩
      have hq' : ¬ (RealLike.lt q.2 (0.0 : R) = true) := by rw [lt_zero_R]; exact hq
      simp only [tryFoldE, hf, if_neg hq']; exact h1

theorem enumL_map_snd {β : Type} (l : List β) : (enumL l).map Prod.snd = l := by
  unfold enumL
  exact List.map_snd_zip (by simp)

theorem enumL_mem_snd {β : Type} (l : List β) (p : Nat × β) (h : p ∈ enumL l) : p.2 ∈ l := by
  rw [← enumL_map_snd l]; exact List.mem_map.mpr ⟨p, h, rfl⟩

theorem enumL_snd_mem {β : Type} (l : List β) (x : β) (h : x ∈ l) : ∃ p ∈ enumL l, p.2 = x := by
  rw [← enumL_map_snd l] at h
  obtain ⟨p, hp, rfl⟩ := List.mem_map.mp h
  exact ⟨p, hp, rfl⟩

theorem enumL_sum (l : List R) : ((enumL l).map (fun p => p.2.val)).sum = (l.map R.val).sum := by
  have : (enumL l).map (fun p => p.2.val) = ((enumL l).map Prod.snd).map R.val := by
    rw [List.map_map]; rfl
  rw [this, enumL_map_snd]

/-! ### `combine` -/

/-- the number of inputs of `combine` with at least one component (the `n` of mixture.rs:206-209) -/
def cnt {α : Type} (ms : List (Mix α Ob)) : Nat := (ms.map (fun mm => if k mm == 0 then 0 else 1)).sum

/-- all (weight, component) pairs of the inputs, in order -/
def allPairs {α : Type} (ms : List (Mix α Ob)) : List (α × Comp α Ob) :=
  ms.flatMap (fun mm => mm.weights.zip mm.comps)

theorem combine_eq {α : Type} [RealLike α] (ms : List (Mix α Ob)) :
    combine ms = if cnt ms = 0 then ⟨[], []⟩
      else ⟨(allPairs ms).map (fun p => p.1 / RealLike.ofNatR (cnt ms)), (allPairs ms).map (fun p => p.2)⟩ := by
  have hn : (ms.map (fun mm : Mix α Ob => if k mm == 0 then 0 else 1)).foldl (· + ·) 0 = cnt ms := by
    rw [← List.sum_eq_foldl_nat]; rfl
  simp only [combine, hn]
  by_cases h : cnt ms = 0
  · simp [h, newUnchecked]
  · simp [h, newUnchecked, allPairs]

@[simp] theorem cnt_nil {α : Type} : cnt ([] : List (Mix α Ob)) = 0 := rfl
theorem cnt_cons {α : Type} (m : Mix α Ob) (t : List (Mix α Ob)) :
    cnt (m :: t) = (if m.comps = [] then 0 else 1) + cnt t := by
  unfold cnt k
  by_cases h : m.comps = [] <;> simp [h]

theorem allPairs_cons {α : Type} (m : Mix α Ob) (t : List (Mix α Ob)) :
    allPairs (m :: t) = m.weights.zip m.comps ++ allPairs t := by
  simp [allPairs]

theorem cnt_eq_zero_iff {α : Type} (ms : List (Mix α Ob)) : cnt ms = 0 ↔ ∀ m ∈ ms, m.comps = [] := by
  induction ms with
  | nil => simp
  | cons m t ih =>
    rw [cnt_cons]
    by_cases h : m.comps = []
    · simp [h, ih]
    · simp [h]

theorem sum_map_div (l : List ℝ) (n : ℝ) : (l.map (fun a => a / n)).sum = l.sum / n := by
  induction l with
  | nil => simp
  | cons a t ih => simp only [List.map_cons, List.sum_cons, ih]; ring

/-- inputs of `combine` that are valid or empty: all weights are non-negative and the total weight is within
    `cnt · 1e-12` of `cnt` -/
theorem allPairs_bound (ms : List (Mix R Ob))
    (h : ∀ m ∈ ms, ((∀ w ∈ m.weights, 0 ≤ w.val) ∧ |(m.weights.map R.val).sum - 1| ≤ 1e-12 ∧
        m.weights.length = m.comps.length ∧ m.comps.length ≠ 0) ∨ (m.weights = [] ∧ m.comps = [])) :
    (∀ p ∈ allPairs ms, 0 ≤ p.1.val) ∧
    |((allPairs ms).map (fun p => p.1.val)).sum - (cnt ms : ℝ)| ≤ (cnt ms : ℝ) * 1e-12 := by
  induction ms with
  | nil => simp [allPairs]
  | cons m t ih =>
    obtain ⟨ih1, ih2⟩ := ih (fun q hq => h q (by simp [hq]))
    rw [allPairs_cons, cnt_cons]
    rcases h m (by simp) with ⟨h1, h2, h3, h4⟩ | ⟨h1, h2⟩
    · have hne : m.comps ≠ [] := fun e => h4 (by simp [e])
      have e1 : (m.weights.zip m.comps).map (fun p => p.1.val) = m.weights.map R.val := by
        have : (m.weights.zip m.comps).map (fun p => p.1.val) = ((m.weights.zip m.comps).map Prod.fst).map R.val := by
          rw [List.map_map]; rfl
        rw [this, List.map_fst_zip (by omega)]
      refine ⟨?_, ?_⟩
      · intro p hp
        rcases List.mem_append.mp hp with hp | hp
        · exact h1 p.1 (List.of_mem_zip hp).1
        · exact ih1 p hp
      · rw [List.map_append, List.sum_append, e1, if_neg hne]
        push_cast
        have : (m.weights.map R.val).sum + ((allPairs t).map (fun p => p.1.val)).sum - (1 + (cnt t : ℝ))
            = ((m.weights.map R.val).sum - 1) + (((allPairs t).map (fun p => p.1.val)).sum - (cnt t : ℝ)) := by ring
        rw [this]
        calc _ ≤ |(m.weights.map R.val).sum - 1| + |((allPairs t).map (fun p => p.1.val)).sum - (cnt t : ℝ)| :=
              abs_add_le _ _
          _ ≤ 1e-12 + (cnt t : ℝ) * 1e-12 := add_le_add h2 ih2
          _ = (1 + (cnt t : ℝ)) * 1e-12 := by ring
    · rw [h1, h2]
      simp only [List.zip_nil_left, List.nil_append, if_true, zero_add]
      exact ⟨ih1, by simpa using ih2⟩

/-! ### `ln_f` over the carrier `X` -/

open X

/-- a finite non-negative weight -/
def NonnegFin (w : X) : Prop := ∃ a : ℝ, w = fin a ∧ 0 ≤ a

/-- the terms `ln wₖ + ln fₖ(x)` of `ln_f` -/
noncomputable def xterms (ps : List (X × Comp X Ob)) (x : Ob) : List X := ps.map (fun p => RealLike.ln p.1 + p.2.lnF x)

/-- `Σ wₖ · exp(ln fₖ(x))` as a real number -/
noncomputable def xsum (ps : List (X × Comp X Ob)) (x : Ob) : ℝ :=
  (ps.map (fun p => p.1.toReal * (RealLike.exp (p.2.lnF x)).toReal)).sum

theorem sum_exp_pos (l : List ℝ) (h : l ≠ []) : 0 < (l.map Real.exp).sum := by
  cases l with
  | nil => exact absurd rfl h
  | cons a t =>
    have : 0 ≤ (t.map Real.exp).sum := List.sum_nonneg (by
      intro y hy; obtain ⟨z, _, rfl⟩ := List.mem_map.mp hy; exact (Real.exp_pos z).le)
    simp only [List.map_cons, List.sum_cons]
    linarith [Real.exp_pos a]

theorem xterms_spec (ps : List (X × Comp X Ob)) (x : Ob)
    (hw : ∀ p ∈ ps, NonnegFin p.1) (hl : ∀ p ∈ ps, IsFinOrNinf (p.2.lnF x)) :
    (∀ t ∈ xterms ps x, IsFinOrNinf t) ∧
    ((fins (xterms ps x)).map Real.exp).sum = xsum ps x ∧
    (fins (xterms ps x) = [] ↔ ∀ p ∈ ps, p.1 = fin 0 ∨ p.2.lnF x = ninf) := by
  induction ps with
  | nil => simp [xterms, xsum]
  | cons p t ih =>
    obtain ⟨ih1, ih2, ih3⟩ := ih (fun q hq => hw q (by simp [hq])) (fun q hq => hl q (by simp [hq]))
    obtain ⟨a, ha, ha0⟩ := hw p (by simp)
    have hlp := hl p (by simp)
    have hx : xterms (p :: t) x = (RealLike.ln p.1 + p.2.lnF x) :: xterms t x := rfl
    have hs : xsum (p :: t) x = p.1.toReal * (RealLike.exp (p.2.lnF x)).toReal + xsum t x := by
      simp [xsum]
    rw [hx, hs, ha]
    rcases (isFinOrNinf_iff _).mp hlp with hb | ⟨b, hb⟩
    · -- ln fₖ(x) = -inf : the term is -inf whatever the weight
      have ht : RealLike.ln (fin a) + p.2.lnF x = ninf := by
        rw [hb, X.ln_fin]
        split_ifs with h1 h2
        · simp
        · simp
        · exact absurd (lt_of_le_of_ne ha0 (Ne.symm h1)) h2
      rw [ht, hb]
      refine ⟨?_, ?_, ?_⟩
      · intro u hu
        rcases List.mem_cons.mp hu with rfl | hu
        · trivial
        · exact ih1 u hu
      · simp [ih2]
      · simp only [fins_cons_ninf, ih3, List.mem_cons, forall_eq_or_imp, hb, or_true, true_and]
    · rw [hb]
      rcases eq_or_lt_of_le ha0 with h0 | hpos
      · -- zero weight: ln 0 = -inf
        subst h0
        have ht : RealLike.ln (fin 0) + fin b = ninf := by simp
        rw [ht]
        refine ⟨?_, ?_, ?_⟩
        · intro u hu
          rcases List.mem_cons.mp hu with rfl | hu
          · trivial
          · exact ih1 u hu
        · simp [ih2]
        · simp only [fins_cons_ninf, ih3, List.mem_cons, forall_eq_or_imp, ha, true_or, true_and]
      · have ht : RealLike.ln (fin a) + fin b = fin (Real.log a + b) := by
          rw [X.ln_fin_pos hpos, X.fin_add_fin]
        rw [ht]
        refine ⟨?_, ?_, ?_⟩
        · intro u hu
          rcases List.mem_cons.mp hu with rfl | hu
          · trivial
          · exact ih1 u hu
        · simp only [fins_cons_fin, List.map_cons, List.sum_cons, ih2, X.exp_fin, X.toReal_fin,
            Real.exp_add, Real.exp_log hpos]
        · simp only [fins_cons_fin, List.mem_cons, forall_eq_or_imp, ha, hb, reduceCtorEq, or_false,
            X.fin_inj_iff]
          constructor
          · intro h; cases h
          · rintro ⟨h, _⟩; exact absurd h hpos.ne'

theorem lnTerms_eq (m : Mix X Ob) (x : Ob) : lnTerms m x = xterms (m.weights.zip m.comps) x := by
  unfold lnTerms lnWeights xterms
  rw [List.zip_map_left, List.map_map]
  rfl

/-- the weighted fold of `f` / `cdf` over `X` when every value is finite -/
theorem fold_mulAdd_fin (g : Comp X Ob → X) (ps : List (X × Comp X Ob)) (a0 : ℝ)
    (hw : ∀ p ∈ ps, ∃ a, p.1 = fin a) (hg : ∀ p ∈ ps, ∃ r, g p.2 = fin r) :
    ps.foldl (fun acc p => mulAdd (g p.2) p.1 acc) (fin a0) =
      fin (a0 + (ps.map (fun p => p.1.toReal * (g p.2).toReal)).sum) := by
  induction ps generalizing a0 with
  | nil => simp
  | cons p t ih =>
    obtain ⟨a, ha⟩ := hw p (by simp)
    obtain ⟨r, hr⟩ := hg p (by simp)
    simp only [List.foldl_cons, mulAdd, ha, hr, X.fin_mul_fin, X.fin_add_fin, List.map_cons, List.sum_cons,
      X.toReal_fin]
    rw [ih _ (fun q hq => hw q (by simp [hq])) (fun q hq => hg q (by simp [hq]))]
    congr 1; ring

/-- the fold of `pdf` / `pmf` over `X` when every component supports `x` and every value is finite -/
theorem fold_pdf_fin (sp : Comp X Ob → Bool) (g : Comp X Ob → X) (ps : List (X × Comp X Ob)) (a0 : ℝ)
    (hs : ∀ p ∈ ps, sp p.2 = true)
    (hw : ∀ p ∈ ps, ∃ a, p.1 = fin a) (hg : ∀ p ∈ ps, ∃ r, g p.2 = fin r) :
    ps.foldl (fun acc p => if sp p.2 then mulAdd p.1 (g p.2) acc else acc) (fin a0) =
      fin (a0 + (ps.map (fun p => p.1.toReal * (g p.2).toReal)).sum) := by
  induction ps generalizing a0 with
  | nil => simp
  | cons p t ih =>
    obtain ⟨a, ha⟩ := hw p (by simp)
    obtain ⟨r, hr⟩ := hg p (by simp)
    simp only [List.foldl_cons, hs p (by simp), if_true, mulAdd, ha, hr, X.fin_mul_fin, X.fin_add_fin,
      List.map_cons, List.sum_cons, X.toReal_fin]
    rw [ih _ (fun q hq => hs q (by simp [hq])) (fun q hq => hw q (by simp [hq])) (fun q hq => hg q (by simp [hq]))]
    congr 1; ring

/-- the fold of `pdf` / `pmf` over `X` with ARBITRARY supports: components that do not support `x` are skipped, whatever
    their `f` is there (NaN, a panic in Rust, a positive number); only the supported ones need a finite density -/
theorem fold_pdf_supp (sp : Comp X Ob → Bool) (g : Comp X Ob → X) (ps : List (X × Comp X Ob)) (a0 : ℝ)
    (hw : ∀ p ∈ ps, ∃ a, p.1 = fin a) (hg : ∀ p ∈ ps, sp p.2 = true → ∃ r, g p.2 = fin r) :
    ps.foldl (fun acc p => if sp p.2 then mulAdd p.1 (g p.2) acc else acc) (fin a0) =
      fin (a0 + (ps.map (fun p => if sp p.2 then p.1.toReal * (g p.2).toReal else 0)).sum) := by
  induction ps generalizing a0 with
  | nil => simp
  | cons p t ih =>
    obtain ⟨a, ha⟩ := hw p (by simp)
    by_cases hs : sp p.2 = true
    · obtain ⟨r, hr⟩ := hg p (by simp) hs
      simp only [List.foldl_cons, hs, if_true, mulAdd, ha, hr, X.fin_mul_fin, X.fin_add_fin,
        List.map_cons, List.sum_cons, X.toReal_fin]
      rw [ih _ (fun q hq => hw q (by simp [hq])) (fun q hq => hg q (by simp [hq]))]
      congr 1; ring
    · have hs' : sp p.2 = false := by simpa using hs
      simp only [List.foldl_cons, hs', Bool.false_eq_true, if_false, List.map_cons, List.sum_cons]
      rw [ih _ (fun q hq => hw q (by simp [hq])) (fun q hq => hg q (by simp [hq]))]
      simp

/-! ### `validate_weights` over `X` -/

theorem real00 : (0.0 : ℝ) = 0 := by norm_num
theorem X_zero : (0.0 : X) = fin 0 := by rw [X.sci_eq]; norm_num
theorem X_one : (1.0 : X) = fin 1 := by rw [X.sci_eq]; norm_num

/-- the step of the `try_fold` of `validate_weights` -/
def vwStep {α : Type} [RealLike α] (sum : α) (p : Nat × α) : Except (Err α) α :=
  if RealLike.lt p.2 (0.0 : α) then .error (Err.mk "WeightTooLow" [RealLike.ofNatR p.1, p.2]) else .ok (sum + p.2)

/-- all weights finite and non-negative: the fold returns their sum -/
theorem vwFold_fin (l : List (Nat × X)) (a : ℝ) (h : ∀ p ∈ l, NonnegFin p.2) :
    tryFoldE vwStep (fin a) l = .ok (fin (a + (l.map (fun p => p.2.toReal)).sum)) := by
  induction l generalizing a with
  | nil => simp [tryFoldE]
  | cons p t ih =>
    obtain ⟨b, hb, hb0⟩ := h p (by simp)
    have : vwStep (fin a) p = .ok (fin (a + b)) := by
      simp [vwStep, hb, real00, not_lt.mpr hb0]
    simp only [tryFoldE, this]
    rw [ih _ (fun q hq => h q (by simp [hq]))]
    simp [hb, add_assoc]

/-- no NaN weight: if the fold succeeds every weight is non-negative (finite or `+inf`), and the result is `+inf`
    as soon as `+inf` occurs -/
theorem vwFold_ok (l : List (Nat × X)) (s s' : X) (hs : s = pinf ∨ ∃ a, s = fin a)
    (hn : ∀ p ∈ l, p.2 ≠ nan) (h : tryFoldE vwStep s l = .ok s') :
    (∀ p ∈ l, NonnegFin p.2 ∨ p.2 = pinf) ∧ ((s = pinf ∨ ∃ p ∈ l, p.2 = pinf) → s' = pinf) := by
  induction l generalizing s with
  | nil =>
    simp only [tryFoldE, Except.ok.injEq] at h
    subst h
    simp
  | cons p t ih =>
    have hnp := hn p (by simp)
    cases hp : p.2 with
    | nan => exact absurd hp hnp
    | ninf =>
      simp [tryFoldE, vwStep, hp, real00] at h
    | pinf =>
      have hst : vwStep s p = .ok pinf := by
        rcases hs with rfl | ⟨a, rfl⟩ <;> simp [vwStep, hp, real00]
      simp only [tryFoldE, hst] at h
      obtain ⟨h1, h2⟩ := ih pinf (Or.inl rfl) (fun q hq => hn q (by simp [hq])) h
      refine ⟨?_, fun _ => h2 (Or.inl rfl)⟩
      intro q hq
      rcases List.mem_cons.mp hq with rfl | hq
      · exact Or.inr hp
      · exact h1 q hq
    | fin b =>
      by_cases hb : b < 0
      · simp [tryFoldE, vwStep, hp, real00, hb] at h
      · have hst : vwStep s p = .ok (s + fin b) := by simp [vwStep, hp, real00, hb]
        simp only [tryFoldE, hst] at h
        have hs' : s + fin b = pinf ∨ ∃ a, s + fin b = fin a := by
          rcases hs with rfl | ⟨a, rfl⟩
          · left; rfl
          · right; exact ⟨a + b, rfl⟩
        obtain ⟨h1, h2⟩ := ih (s + fin b) hs' (fun q hq => hn q (by simp [hq])) h
        refine ⟨?_, ?_⟩
        · intro q hq
          rcases List.mem_cons.mp hq with rfl | hq
          · exact Or.inl ⟨b, hp, not_lt.mp hb⟩
          · exact h1 q hq
        · rintro (rfl | ⟨q, hq, hq'⟩)
          · exact h2 (Or.inl rfl)
          · rcases List.mem_cons.mp hq with rfl | hq
            · rw [hp] at hq'; cases hq'
            · exact h2 (Or.inr ⟨q, hq, hq'⟩)

/-- `+inf` or NaN: a running sum the final test `|sum − 1| ≤ 1e-12` rejects -/
def BadSum (s : X) : Prop := s = pinf ∨ s = nan

/-- ANY weights (NaN included): if the fold succeeds, a bad running sum stays bad, and from a finite running sum
    either every weight is finite and non-negative or the result is bad (`+inf` / NaN) -/
theorem vwFold_ok_any (l : List (Nat × X)) (s s' : X) (hs : BadSum s ∨ ∃ a, s = fin a)
    (h : tryFoldE vwStep s l = .ok s') :
    (BadSum s → BadSum s') ∧ ((∃ a, s = fin a) → (∀ p ∈ l, NonnegFin p.2) ∨ BadSum s') := by
  induction l generalizing s with
  | nil =>
    simp only [tryFoldE, Except.ok.injEq] at h
    subst h
    exact ⟨id, fun _ => Or.inl (by simp)⟩
  | cons p t ih =>
    -- a bad next state: everything follows from the induction hypothesis
    have bad : ∀ s1, vwStep s p = .ok s1 → BadSum s1 → BadSum s' := by
      intro s1 hst hb
      simp only [tryFoldE, hst] at h
      exact (ih s1 (Or.inl hb) h).1 hb
    cases hp : p.2 with
    | nan =>
      have hst : vwStep s p = .ok nan := by
        rcases hs with (rfl | rfl) | ⟨a, rfl⟩ <;> simp [vwStep, hp]
      have := bad nan hst (Or.inr rfl)
      exact ⟨fun _ => this, fun _ => Or.inr this⟩
    | ninf =>
      simp [tryFoldE, vwStep, hp, real00] at h
    | pinf =>
      rcases hs with (rfl | rfl) | ⟨a, rfl⟩
      · have := bad pinf (by simp [vwStep, hp, real00]) (Or.inl rfl)
        exact ⟨fun _ => this, fun _ => Or.inr this⟩
      · have := bad nan (by simp [vwStep, hp, real00]) (Or.inr rfl)
        exact ⟨fun _ => this, fun _ => Or.inr this⟩
      · have := bad pinf (by simp [vwStep, hp, real00]) (Or.inl rfl)
        exact ⟨fun _ => this, fun _ => Or.inr this⟩
    | fin b =>
      by_cases hb : b < 0
      · simp [tryFoldE, vwStep, hp, real00, hb] at h
      · rcases hs with (rfl | rfl) | ⟨a, rfl⟩
        · have := bad pinf (by simp [vwStep, hp, real00, hb]) (Or.inl rfl)
          exact ⟨fun _ => this, fun _ => Or.inr this⟩
        · have := bad nan (by simp [vwStep, hp, real00, hb]) (Or.inr rfl)
          exact ⟨fun _ => this, fun _ => Or.inr this⟩
        · have hst : vwStep (fin a) p = .ok (fin (a + b)) := by simp [vwStep, hp, real00, hb]
          simp only [tryFoldE, hst] at h
          obtain ⟨_, h2⟩ := ih (fin (a + b)) (Or.inr ⟨_, rfl⟩) h
          refine ⟨fun hbad => (by rcases hbad with hbad | hbad <;> cases hbad), fun _ => ?_⟩
          rcases h2 ⟨_, rfl⟩ with hall | hbad
          · left
            intro q hq
            rcases List.mem_cons.mp hq with rfl | hq
            · exact ⟨b, hp, not_lt.mp hb⟩
            · exact hall q hq
          · exact Or.inr hbad

theorem validateWeights_unfold {α : Type} [RealLike α] (ws : List α) :
    validateWeights ws =
      if ws.isEmpty then .error (Err.mk "WeightsEmpty" [])
      else match tryFoldE vwStep (0.0 : α) (enumL ws) with
        | .error e => .error e
        | .ok sum =>
          if !(RealLike.le (RealLike.abs (sum - (1.0 : α))) (1E-12 : α))
          then .error (Err.mk "WeightsDoNotSumToOne" [sum]) else .ok () := rfl

theorem enumL_sum_X (l : List X) : ((enumL l).map (fun p => p.2.toReal)).sum = (l.map X.toReal).sum := by
  have : (enumL l).map (fun p => p.2.toReal) = ((enumL l).map Prod.snd).map X.toReal := by
    rw [List.map_map]; rfl
  rw [this, enumL_map_snd]

end C11
