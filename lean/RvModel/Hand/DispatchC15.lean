import RvModel.Wire
import RvModel.FloatInst
import RvModel.Hand.Mvg
/-
  Driver entries of property C15 (Float carrier): the hand model `Hand/Mvg.lean` of the multivariate Gaussian family.
  The SAME lines are understood by the harness (`harness/src/manual_c15.rs`), which runs the real code.

  tokens:   vector  <v>  ::= L<d> x…                      matrix  <M> ::= <r> <c> L<r·c> x…   (row-major; data sets: one
            observation per row)       arm ::= D | Q       (`DataOrSuffStat::Data(&xs)` | `::SuffStat(&stat)`, the
            statistic being built by `MvGaussianSuffStat::new(ndims)` + `observe` of every row)
  answers:  floats / `L<d> …` / matrices in the same format; `ok`; `E:<Variant>`; `PANIC`; option `N` | `S …`.

    mvg.new - <mu> <cov>                          ↦ ok | E:…
    mvg.set_mu - <mu> <cov> <mu2>                 ↦ (ok | E:…) <mu()> <cov()>   = the object AFTER the call   (constructor errors: `E0:…`)
    mvg.mean_variance - <mu> <cov>                ↦ <mean> <variance> | E:…
    mvg.ln_f - <mu> <cov> <x>                     ↦ x… | E:… | PANIC
    mvg.entropy - <mu> <cov>                      ↦ x… | E:…
    mvg.ln_f_stat - <mu> <cov> <data>             ↦ x… | E:… | PANIC
    mvg.draw_z - <mu> <cov> <z>                   ↦ <x>           (MODEL ONLY; the harness has `mvg.draw_with_z … <seed>` ↦ <z> <x>)
    mvg.set_cov_then_ln_f - <mu> <cov1> <cov2> <x> ↦ <ln_f before> <ln_f after> <entropy after> <ln_f fresh> <entropy fresh>
                                                       <mu()> <cov()> <object == fresh new(mu, cov2)>
                                                     | E:<Variant of set_cov> <ln_f after the failed set_cov> <entropy after>
                                                       <mu()> <cov()> <object == the object before the call>
    mvg.from_chol - <mu> <cov> <x>                ↦ N (Cholesky fails) | E:MuCovDimensionMismatch <cov() of new_cholesky_unchecked>
                                                     | <cov() of new_cholesky(mu, chol)> <cov() of new_cholesky_unchecked(mu, chol)> <the two ==>
                                                       <ln_f x> <entropy> <variance()> of the unchecked one
                                                       <cov() of from_params(emit_params(new(mu, cov)))> <that == new(mu, cov)>
    niw.draw_z - <niw> <Z: (df+1) × d variates>   ↦ <mu()> <cov()> of the draw   (MODEL ONLY; harness: `niw.draw_with_z <niw> <seed>` ↦ <Z> <mu()> <cov()>)
    mvgstat.observe_forget - <data> L<k> i…       ↦ <n> <sum_x> <sum_x_sq>
    iw.new - <scale> <df>                         ↦ ok | E:…
    iw.ln_f - <scale> <df> <x>                    ↦ x… | E:… | PANIC
    iw.mean / iw.mode - <scale> <df>              ↦ N | S <M> | E:…
    niw.new - <mu> <k> <df> <scale>               ↦ ok | E:…
    niw.ln_f - <mu> <k> <df> <scale> <mvg mu> <mvg cov>   ↦ x… | E:… (NIW) | E1:… (MvGaussian) | PANIC
    niw.posterior - <niw> <arm> <data>            ↦ <mu> <k> <df> <scale> | E:… | PANIC
    niw.ln_m - <niw> <arm> <data>                 ↦ x… | E:… | PANIC
    niw.ln_pp - <niw> <y> <arm> <data>            ↦ x… | E:… | PANIC
    mat.det / mat.inverse / mat.chol / mat.chol_inverse - <M>   ↦ the list algorithms `det`, `inverse` (N | S <M>),
                                                     `cholesky` (N | S <L>), `cholInverse` + `cholLnDet` (N | S <M> x…)
-/
namespace HandDispatchC15
open Wire Hand.Mvg

def chunk {β : Type} (c : Nat) : Nat → List β → List (List β)
  | 0, _ => []
  | r + 1, xs => xs.take c :: chunk c r (xs.drop c)

/-- `<r> <c> L<r·c> …` with the stated dimensions (a `0 × c` matrix has no rows in the list encoding) -/
def rdMatDims : Rd (Nat × Nat × Mat Float) := do
  let r ← rdN; let c ← rdN; let xs ← rdL rdF
  if xs.length ≠ r * c then throw "bad matrix"
  pure (r, c, chunk c r xs)

/-- `<r> <c> L<r·c> …` -/
def rdMat : Rd (Mat Float) := do
  let (_, _, m) ← rdMatDims
  pure m

def rdVec : Rd (Vec Float) := rdL rdF

def wrVec (v : Vec Float) : String := wrL wrF v
def wrMat (m : Mat Float) : String := s!"{nrows m} {ncols m} " ++ wrL wrF m.flatten

def wrErr (pre : String) (e : Err Float) : String := if e.variant == "PANIC" then "PANIC" else pre ++ ":" ++ e.variant

def wrEx {β : Type} (w : β → String) : Except (Err Float) β → String
  | .ok x => w x
  | .error e => wrErr "E" e

/-- does every row have the stated length? (the list encoding allows ragged input only through bad lines) -/
def rowsOk (m : Mat Float) : Bool := m.all (fun r => r.length == ncols m)

def rdNiw : Rd (Except (Err Float) (NormalInvWishart Float) × Vec Float × Mat Float) := do
  let mu ← rdVec; let k ← rdF; let df ← rdN; let scale ← rdMat
  pure (NormalInvWishart.new mu k df scale, mu, scale)

/-- `D`/`Q` + data matrix ↦ the `DataOrSuffStat` the harness builds; `none` when the harness would panic while building
    the statistic (rows of a length different from the running sums) -/
def rdArm (ndims : Nat) : Rd (Option (MvgData Float)) := do
  let arm ← Wire.next; let data ← rdMat
  if arm == "D" then pure (some (.data data))
  else if arm == "Q" then
    pure (some (.suffStat ((MvGaussianSuffStat.new ndims : MvGaussianSuffStat Float).observe_many data)))
  else throw s!"bad arm {arm}"

/-- nalgebra panics on a dimension mismatch of `+`/`-`/`*`: the data rows must have the length of `mu` -/
def dataDimsOk (d : Nat) (x : MvgData Float) : Bool :=
  match x with
  | .data xs => xs.all (fun r => r.length == d)
  | .suffStat s => s.n == 0 || (s.sum_x.length == d)

def tableC15 : List (String × Rd String) := [
  ("mvg.new", do
    let _ ← Wire.next; let mu ← rdVec; let cov ← rdMat
    pure (wrEx (fun _ => "ok") (MvGaussian.new mu cov))),
  ("mvg.set_mu", do
    let _ ← Wire.next; let mu ← rdVec; let cov ← rdMat; let mu2 ← rdVec
    match MvGaussian.new mu cov with
    | .error e => pure (wrErr "E0" e)
    | .ok g =>
      let (g', r) := g.set_mu_st mu2          -- the object AFTER the call is printed whether it failed or not
      pure ((match r with | .ok _ => "ok" | .error e => wrErr "E" e) ++ " " ++ wrVec g'.mu ++ " " ++ wrMat g'.cov)),
  ("mvg.mean_variance", do
    let _ ← Wire.next; let mu ← rdVec; let cov ← rdMat
    match MvGaussian.new mu cov with
    | .error e => pure (wrErr "E" e)
    | .ok g => pure (wrVec (g.mean.getD []) ++ " " ++ wrMat (g.variance.getD []))),
  ("mvg.ln_f", do
    let _ ← Wire.next; let mu ← rdVec; let cov ← rdMat; let x ← rdVec
    match MvGaussian.new mu cov with
    | .error e => pure (wrErr "E" e)
    | .ok g => if x.length ≠ mu.length then pure "PANIC" else pure (wrF (g.ln_f x))),
  ("mvg.entropy", do
    let _ ← Wire.next; let mu ← rdVec; let cov ← rdMat
    pure (wrEx (fun g => wrF g.entropy) (MvGaussian.new mu cov))),
  ("mvg.ln_f_stat", do
    let _ ← Wire.next; let mu ← rdVec; let cov ← rdMat; let data ← rdMat
    match MvGaussian.new mu cov with
    | .error e => pure (wrErr "E" e)
    | .ok g =>
      if data.any (fun r => r.length ≠ mu.length) then pure "PANIC"
      else pure (wrF (g.ln_f_stat ((MvGaussianSuffStat.new mu.length).observe_many data)))),
  ("mvg.draw_z", do
    let _ ← Wire.next; let mu ← rdVec; let cov ← rdMat; let z ← rdVec
    match MvGaussian.new mu cov with
    | .error e => pure (wrErr "E" e)
    | .ok g => pure (wrVec (g.draw_z z))),
  ("mvg.set_cov_then_ln_f", do
    let _ ← Wire.next; let mu ← rdVec; let cov1 ← rdMat; let cov2 ← rdMat; let x ← rdVec
    match MvGaussian.new mu cov1 with
    | .error e => pure (wrErr "E0" e)
    | .ok g =>
      if x.length ≠ mu.length then pure "PANIC"
      else
        let before := g.ln_f x
        let (g2, r) := g.set_cov_st cov2      -- the object AFTER the call, whether it failed or not
        match r with
        | .error e =>
          pure (String.intercalate " " [wrErr "E" e, wrF (g2.ln_f x), wrF g2.entropy, wrVec g2.mu, wrMat g2.cov, wrB (g2.eq g)])
        | .ok _ =>
          match MvGaussian.new mu cov2 with
          | .error e => pure (wrErr "E2" e)
          | .ok fresh =>
            pure (String.intercalate " " [wrF before, wrF (g2.ln_f x), wrF g2.entropy, wrF (fresh.ln_f x), wrF fresh.entropy,
              wrVec g2.mu, wrMat g2.cov, wrB (g2.eq fresh)])),
  ("mvg.from_chol", do
    let _ ← Wire.next; let mu ← rdVec; let cov ← rdMat; let x ← rdVec
    if !(isSquare cov) then pure "PANIC"
    else match cholesky cov with
      | none => pure "N"
      | some l =>
        let b := MvGaussian.new_cholesky_unchecked mu l
        match MvGaussian.new_cholesky mu l with
        | .error e => pure (wrErr "E" e ++ " " ++ wrMat b.cov)
        | .ok a =>
          if x.length ≠ mu.length then pure "PANIC"
          else match MvGaussian.new mu cov with
            | .error e => pure (wrErr "E1" e)
            | .ok c =>
              match MvGaussian.from_params c.emit_params with
              | .error e => pure (wrErr "E2" e)
              | .ok r =>
                pure (String.intercalate " " [wrMat a.cov, wrMat b.cov, wrB (b.eq a), wrF (b.ln_f x), wrF b.entropy,
                  wrMat (b.variance.getD []), wrMat r.cov, wrB (r.eq c)])),
  ("mvgstat.observe_forget", do
    let _ ← Wire.next; let (_, d, data) ← rdMatDims; let idx ← rdL rdN
    let st := (MvGaussianSuffStat.new d : MvGaussianSuffStat Float).observe_many data
    let st := idx.foldl (fun st i => st.forget (data.getD i [])) st
    pure (s!"{st.n} " ++ wrVec st.sum_x ++ " " ++ wrMat st.sum_x_sq)),
  ("iw.new", do
    let _ ← Wire.next; let sc ← rdMat; let df ← rdN
    pure (wrEx (fun _ => "ok") (InvWishart.new sc df))),
  ("iw.ln_f", do
    let _ ← Wire.next; let sc ← rdMat; let df ← rdN; let x ← rdMat
    match InvWishart.new sc df with
    | .error e => pure (wrErr "E" e)
    | .ok iw =>
      if !(isSquare x) || nrows x ≠ nrows sc then pure "PANIC"
      else pure (wrEx wrF (iw.ln_f x))),
  ("iw.mean", do
    let _ ← Wire.next; let sc ← rdMat; let df ← rdN
    pure (wrEx (fun iw => wrO wrMat iw.mean) (InvWishart.new sc df))),
  ("iw.mode", do
    let _ ← Wire.next; let sc ← rdMat; let df ← rdN
    pure (wrEx (fun iw => wrO wrMat iw.mode) (InvWishart.new sc df))),
  ("niw.new", do
    let _ ← Wire.next; let (r, _, _) ← rdNiw
    pure (wrEx (fun _ => "ok") r)),
  ("niw.ln_f", do
    let _ ← Wire.next; let (r, _, _) ← rdNiw; let gmu ← rdVec; let gcov ← rdMat
    match r with
    | .error e => pure (wrErr "E" e)
    | .ok niw =>
      match MvGaussian.new gmu gcov with
      | .error e => pure (wrErr "E1" e)
      | .ok g =>
        if gmu.length ≠ niw.mu.length then pure "PANIC" else pure (wrEx wrF (niw.ln_f g))),
  ("niw.posterior", do
    let _ ← Wire.next; let (r, mu, _) ← rdNiw; let x ← rdArm mu.length
    match r, x with
    | .error e, _ => pure (wrErr "E" e)
    | .ok _, none => pure "PANIC"
    | .ok niw, some x =>
      if !(dataDimsOk mu.length x) then pure "PANIC"
      else pure (wrEx (fun (p : NormalInvWishart Float) =>
        String.intercalate " " [wrVec p.mu, wrF p.k, wrN p.df, wrMat p.scale]) (niw.posterior x))),
  ("niw.ln_m", do
    let _ ← Wire.next; let (r, mu, _) ← rdNiw; let x ← rdArm mu.length
    match r, x with
    | .error e, _ => pure (wrErr "E" e)
    | .ok _, none => pure "PANIC"
    | .ok niw, some x =>
      if !(dataDimsOk mu.length x) then pure "PANIC" else pure (wrEx wrF (niw.ln_m x))),
  ("niw.ln_pp", do
    let _ ← Wire.next; let (r, mu, _) ← rdNiw; let y ← rdVec; let x ← rdArm mu.length
    match r, x with
    | .error e, _ => pure (wrErr "E" e)
    | .ok _, none => pure "PANIC"
    | .ok niw, some x =>
      if !(dataDimsOk mu.length x) || y.length ≠ mu.length then pure "PANIC" else pure (wrEx wrF (niw.ln_pp y x))),
  ("niw.draw_z", do
    let _ ← Wire.next; let (r, mu, _) ← rdNiw; let zs ← rdMat
    match r with
    | .error e => pure (wrErr "E" e)
    | .ok niw =>
      if zs.length ≠ niw.df + 1 || zs.any (fun z => z.length ≠ mu.length) then pure "BAD:variates"
      else pure (wrEx (fun (g : MvGaussian Float) => wrVec g.mu ++ " " ++ wrMat g.cov)
        (niw.draw_z (zs.take niw.df) (zs.getD niw.df [])))),
  -- the linear-algebra layer of the model against the nalgebra routines rv delegates to
  ("mat.det", do
    let _ ← Wire.next; let m ← rdMat
    if !(isSquare m) then pure "PANIC" else pure (wrF (det m))),
  ("mat.inverse", do
    let _ ← Wire.next; let m ← rdMat
    if !(isSquare m) then pure "PANIC" else pure (wrO wrMat (inverse m))),
  ("mat.chol", do
    let _ ← Wire.next; let m ← rdMat
    if !(isSquare m) then pure "PANIC" else pure (wrO wrMat (cholesky m))),
  ("mat.chol_inverse", do
    let _ ← Wire.next; let m ← rdMat
    if !(isSquare m) then pure "PANIC"
    else match cholesky m with
      | none => pure "N"
      | some l => pure ("S " ++ wrMat (cholInverse l) ++ " " ++ wrF (cholLnDet l)))
]
end HandDispatchC15
