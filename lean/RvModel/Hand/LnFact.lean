import RvModel.Num
import RvModel.Gen.Tables
/-!
  RvModel.Hand.LnFact — certified rational enclosures of `log n` / `log n!` (Mathlib-free, executable, reducible by
  the kernel) and the Boolean checkers of the `LN_FACT` table of `/repo/src/misc/func.rs:472-728`, used by
  Props/C14B.lean.  Soundness of the enclosures (`lo ≤ Real.log n ≤ hi`) is proved in Lemmas/C14LnFact.lean.

  log((k+1)/k) = 2·artanh(1/(2k+1)) = 2 Σ_{i≥0} x^(2i+1)/(2i+1),  x = 1/(2k+1)
  partial sum of `nTerms` terms is a lower bound; adding the geometric tail bound x^(2N+1)/(1-x²) gives an upper bound.
  Every step is rounded outward to a multiple of 2^-prec so that the running sums stay small.
-/
namespace Hand.LnFact
open GenTables

/-- number of series terms per step (tail for k = 1: 2·3⁻⁴¹·9/8 ≈ 6·10⁻²⁰) -/
def nTerms : Nat := 20
/-- outward rounding granularity 2^-100 -/
def prec : Nat := 100

/-- largest multiple of 2^-prec that is ≤ q -/
def rdDown (q : Rat) : Rat := mkRat (q.num * 2 ^ prec / (q.den : Int)) (2 ^ prec)
/-- a multiple of 2^-prec that is > q -/
def rdUp (q : Rat) : Rat := mkRat (q.num * 2 ^ prec / (q.den : Int) + 1) (2 ^ prec)

/-- Σ_{i<N} x^(2i+1)/(2i+1) -/
def atanhSum (x : Rat) : Nat → Rat
  | 0 => 0
  | N + 1 => atanhSum x N + x ^ (2 * N + 1) / ((2 * N + 1 : Nat) : Rat)

/-- enclosure (lo, hi) of log((k+1)/k), k ≥ 1 -/
def stepEnc (k : Nat) : Rat × Rat :=
  let x : Rat := 1 / ((2 * k + 1 : Nat) : Rat)
  let s := atanhSum x nTerms
  (rdDown (2 * s), rdUp (2 * (s + x ^ (2 * nTerms + 1) / (1 - x ^ 2))))

/-- `stepEnc k` for k ≥ 1, `(0,0)` for k = 0 (log(1/1) = 0; the series is not used there) -/
def stepEnc' (k : Nat) : Rat × Rat := if k = 0 then (0, 0) else stepEnc k

/-- enclosure (lo, hi) of `log n` (n ≥ 1; (0,0) for n = 0): Σ_{k=1}^{n-1} stepEnc k -/
def lnEnc : Nat → Rat × Rat
  | 0 => (0, 0)
  | n + 1 => ((lnEnc n).1 + (stepEnc' n).1, (lnEnc n).2 + (stepEnc' n).2)

/-- enclosure of `log n!` = Σ_{m ≤ n} log m -/
def lnFactEnc : Nat → Rat × Rat
  | 0 => (0, 0)
  | n + 1 => ((lnFactEnc n).1 + (lnEnc (n + 1)).1, (lnFactEnc n).2 + (lnEnc (n + 1)).2)

/-- one pass producing `[(lnEnc N, lnFactEnc N), …, (lnEnc 1, lnFactEnc 1), (lnEnc 0, lnFactEnc 0)]`
    (what the checkers evaluate; equal to the per-`n` definitions by `C14L.encRev_getD`) -/
def encRev : Nat → List ((Rat × Rat) × (Rat × Rat))
  | 0 => [((0, 0), (0, 0))]
  | N + 1 =>
    match encRev N with
    | [] => []
    | h :: l =>
      let s := stepEnc' N
      let e : Rat × Rat := (h.1.1 + s.1, h.1.2 + s.2)
      (e, (h.2.1 + e.1, h.2.2 + e.2)) :: h :: l

def absQ (q : Rat) : Rat := if q < 0 then -q else q

/-- table entry `LN_FACT[n]` (0 out of range) -/
def T (n : Nat) : Rat := LN_FACT.getD n 0

/-- (i) 255 entries, T[0] = T[1] = 0, strictly increasing from index 1 -/
def tableShapeOk : Bool :=
  LN_FACT.length == 255 && T 0 == 0 && T 1 == 0 &&
  (List.range 253).all fun i => decide (T (i + 1) < T (i + 2))

/-- (ii) for n = 2..254: the enclosure [lo,hi] of log n satisfies  hi − tol ≤ T[n] − T[n−1] ≤ lo + tol
    (which implies |T[n] − T[n−1] − log n| ≤ tol) -/
def diffOk (tol : Rat) : Bool :=
  let L := encRev 254
  (List.range 253).all fun i =>
    let n := i + 2
    let e := (L.getD (254 - n) ((0, 0), (0, 0))).1
    let d := T n - T (n - 1)
    decide (e.2 - tol ≤ d) && decide (d ≤ e.1 + tol)

/-- cumulative: for n = 0..254 the enclosure [lo,hi] of log n! satisfies hi − tol ≤ T[n] ≤ lo + tol, and
    (relative) hi·(1 − rtol) ≤ T[n] ≤ lo·(1 + rtol) -/
def cumOk (tol rtol : Rat) : Bool :=
  let L := encRev 254
  (List.range 255).all fun n =>
    let e := (L.getD (254 - n) ((0, 0), (0, 0))).2
    decide (e.2 - tol ≤ T n) && decide (T n ≤ e.1 + tol) &&
    decide (e.2 * (1 - rtol) ≤ T n) && decide (T n ≤ e.1 * (1 + rtol))

/-- width of the enclosures: log n for n ≤ 255 is known to 10⁻¹⁸ -/
def widthOk (w : Rat) : Bool :=
  (encRev 255).all fun e => decide (e.1.2 - e.1.1 ≤ w) && decide (e.2.2 - e.2.1 ≤ 255 * w)

/-- Stirling branch of `ln_fact` (`func.rs:417-419`) at `n`, as a function of (an enclosure endpoint of) `log (n+1)`,
    with the binary64 literal `LN_2PI` of `consts.rs:14`:  (y−½)·ℓ − y + ½·LN_2PI + 1/(12y),  y = n+1 -/
def stirlingWith (n : Nat) (l : Rat) : Rat :=
  let y : Rat := ((n + 1 : Nat) : Rat)
  (y - 1 / 2) * l - y + (1 / 2 * LN_2PI + 1 / (12 * y))

/-- (iii) continuity at the switch n = 254: with [lo₅,hi₅] ∋ log 255, [lo₄,hi₄] ∋ log 254:
    stirlingWith 254 hi₅ − (T[253] + lo₄) ≤ tol  and  stirlingWith 254 lo₅ − (T[253] + hi₄) ≥ −tol -/
def switchOk (tol : Rat) : Bool :=
  let L := encRev 255
  let e5 := (L.getD 0 ((0, 0), (0, 0))).1
  let e4 := (L.getD 1 ((0, 0), (0, 0))).1
  decide (stirlingWith 254 e5.2 - (T 253 + e4.1) ≤ tol) && decide (-tol ≤ stirlingWith 254 e5.1 - (T 253 + e4.2))

/-- the jump at the switch is genuinely about 1/(360·255³) ≈ 1.675·10⁻¹⁰ (not 0): lower bound -/
def switchJumpOk (lb : Rat) : Bool :=
  let L := encRev 255
  let e5 := (L.getD 0 ((0, 0), (0, 0))).1
  let e4 := (L.getD 1 ((0, 0), (0, 0))).1
  decide (lb ≤ stirlingWith 254 e5.1 - (T 253 + e4.2))

-- ---------------------------------------------------------------------------------------------------------
-- log(2π): enclosure from Mathlib's 20-digit bounds of π, to judge the literal `LN_2PI` of `consts.rs:14`

/-- enclosure of `log a` for a rational `a ≥ 1`:  log a = 2·artanh((a−1)/(a+1)), `N` series terms + tail bound -/
def ratioEnc (a : Rat) (N : Nat) : Rat × Rat :=
  let x : Rat := (a - 1) / (a + 1)
  let s := atanhSum x N
  (2 * s, 2 * (s + x ^ (2 * N + 1) / (1 - x ^ 2)))

/-- `Real.pi_gt_d20` -/
def piLo : Rat := 314159265358979323846 / 10 ^ 20
/-- `Real.pi_lt_d20` -/
def piHi : Rat := 314159265358979323847 / 10 ^ 20

/-- enclosure of log(2π) = log 2 + log 3 + log(π/3) -/
def ln2PiEnc : Rat × Rat :=
  ((lnEnc 2).1 + (lnEnc 3).1 + (ratioEnc (piLo / 3) 8).1, (lnEnc 2).2 + (lnEnc 3).2 + (ratioEnc (piHi / 3) 8).2)

/-- the binary64 literal `LN_2PI` is within `tol` of every point of the enclosure of log 2π -/
def ln2PiOk (tol : Rat) : Bool :=
  decide (ln2PiEnc.2 - tol ≤ LN_2PI) && decide (LN_2PI ≤ ln2PiEnc.1 + tol)

end Hand.LnFact
