import RvModel.Num
import RvModel.Prelude
/-!
  RvModel.Hand.Kernel — hand model of the covariance kernels of `rv::process::gaussian::kernel`
  (`/repo/src/process/gaussian/kernel/*.rs`).  Mathlib-free, generic in the carrier `[RealLike α]`.

  The translator does not handle these files (nalgebra matrices, generic composition types), so every
  function is transcribed by hand **exactly as written**, including what looks wrong (see C16_notes.md):
  each definition cites the Rust lines it mirrors.

  * kernel expression trees  `K α`  (leaves = the seven kernel structs, `add` = `AddKernel`, `mul` = `ProductKernel`);
  * a point is a `List α` (coordinates of one row of the input matrix), a point set a `List (List α)` (rows);
  * per-entry functions `cov`, `diagEntry`, `covGradEntry`; `parameters`, `nParameters`, `reparameterize`,
    `consumeParameters`; matrix-level functions `covMatrix`, `diag`, `covWithGrad` built from them, which also
    model the panics of the implementation (`KErr.panic`).

  `covariance_with_gradient` fills the matrix by index (`for i in 0..n { for j in 0..i {…} ; diag }`), and what it
  writes depends on the *position* (below / on / above the diagonal), not only on the two points: `covGradEntry`
  therefore takes a `Pos`.
-/
namespace Hand.Kernel
open RealLike

-- ---------------------------------------------------------------------------------------------------------------
-- `misc::bessel::bessel_ikv_temme` (`/repo/src/misc/bessel.rs:676-727`) and its helpers, needed by the Matérn kernel

section Bessel
variable {α : Type} [RealLike α]

/-- `const MAX_ITER: usize = 500` (`bessel.rs:1`) -/
def maxIter : Nat := 500

/-- state of the loop of `temme_ik_series` -/
structure TemmeSt (α : Type) where
  f : α
  p : α
  q : α
  h : α
  coef : α
  sum : α
  sum1 : α

/-- `temme_ik_series(v, x)` (`bessel.rs:734-792`): `K_v(x)`, `K_{v+1}(x)` for `|v| ≤ 1/2`, `x ≤ 2` -/
def temmeIkSeries (v x : α) : Except String (α × α) :=
  let gp := gamma (v + (1.0 : α)) - (1.0 : α)                                      -- :745
  let gm := gamma ((1.0 : α) - v) - (1.0 : α)                                      -- :746
  let a := ln (x / (2.0 : α))                                                      -- :748
  let b := exp (v * a)                                                             -- :749
  let sigma := -a * v                                                              -- :750
  let c := if lt (abs v) ((2.0 : α) * epsilon) then (1.0 : α) else sin (pi * v) / (pi * v)   -- :751-755
  let d := if lt (abs sigma) epsilon then (1.0 : α) else sinh sigma / sigma         -- :756-760
  let gamma1 := if lt (abs v) epsilon then -(eulerGamma : α) else ((0.5 : α) / v) * (gp - gm) * c  -- :761-765
  let gamma2 := ((2.0 : α) + gp + gm) * c / (2.0 : α)                              -- :766
  let p0 := (gp + (1.0 : α)) / ((2.0 : α) * b)                                     -- :768
  let q0 := (gm + (1.0 : α)) * b / (2.0 : α)                                       -- :769
  let f0 := mulAdd d (-a * gamma2) (cosh sigma * gamma1) / c                       -- :770
  let h0 := p0                                                                     -- :771
  let coef0 := (1.0 : α)                                                           -- :772
  let rec go (fuel : Nat) (k : Nat) (s : TemmeSt α) : Except String (α × α) :=
    match fuel with
    | 0 => .error "FailedToConverge"                                               -- :791
    | fuel + 1 =>
      let kf : α := ofNatR k
      let f := mulAdd kf s.f (s.p + s.q) / mulAdd kf kf (-v * v)                   -- :778
      let p := s.p / (kf - v)                                                      -- :779
      let q := s.q / (kf + v)                                                      -- :780
      let h := mulAdd kf (-f) p                                                    -- :781
      let coef := s.coef * (x * x / ((4.0 : α) * kf))                              -- :782
      let sum := s.sum + coef * f                                                  -- :783
      let sum1 := s.sum1 + coef * h                                                -- :784
      if lt (abs (coef * f)) (abs sum * epsilon) then                              -- :786
        .ok (sum, (2.0 : α) * sum1 / x)                                            -- :787
      else go fuel (k + 1) ⟨f, p, q, h, coef, sum, sum1⟩
  go (maxIter - 1) 1 ⟨f0, p0, q0, h0, coef0, coef0 * f0, coef0 * h0⟩               -- :773-776 (`for k in 1..MAX_ITER`)

/-- state of the loop of `cf2_ik` -/
structure Cf2St (α : Type) where
  a : α
  b : α
  d : α
  delta : α
  f : α
  prev : α
  cur : α
  q : α
  c : α
  s : α

/-- `cf2_ik(v, x)` (`bessel.rs:798-840`): `K_v(x)`, `K_{v+1}(x)` by Steed's algorithm, `x > 2` -/
def cf2Ik (v x : α) : Except String (α × α) :=
  let a0 := mulAdd v v (-(0.25 : α))                                               -- :806
  let b0 := (2.0 : α) * (x + (1.0 : α))                                            -- :807
  let d0 := recip b0                                                               -- :808
  let q0 := -a0                                                                    -- :814
  let rec go (fuel : Nat) (k : Nat) (s : Cf2St α) : Except String (α × α) :=
    match fuel with
    | 0 => .error "FailedToConverge"                                               -- :839
    | fuel + 1 =>
      let kf : α := ofNatR k
      let a := s.a - (2.0 : α) * (kf - (1.0 : α))                                  -- :820
      let b := s.b + (2.0 : α)                                                     -- :821
      let d := recip (mulAdd a s.d b)                                              -- :822
      let delta := s.delta * mulAdd b d (-(1.0 : α))                               -- :823
      let f := s.f + delta                                                         -- :824
      let t := mulAdd (b - (2.0 : α)) (-s.cur) s.prev / a                          -- :826
      let prev := s.cur                                                            -- :827
      let cur := t                                                                 -- :828
      let c := s.c * (-a / kf)                                                     -- :829
      let q := s.q + c * t                                                         -- :830
      let s' := s.s + q * delta                                                    -- :831
      if lt (abs (q * delta)) (abs s' * epsilon / (2.0 : α)) then                  -- :833
        let kv := sqrt (pi / ((2.0 : α) * x)) * exp (-x) / s'                      -- :834
        let kv1 := kv * mulAdd (mulAdd v v (-(0.25 : α))) f ((0.5 : α) + v + x) / x   -- :835
        .ok (kv, kv1)
      else go fuel (k + 1) ⟨a, b, d, delta, f, prev, cur, q, c, s'⟩
  go (maxIter - 2) 2 ⟨a0, b0, d0, d0, d0, (0.0 : α), (1.0 : α), q0, q0, mulAdd q0 d0 (1.0 : α)⟩   -- :810-818

/-- `cf1_ik(v, x)` (`bessel.rs:845-884`): `I_{v+1}/I_v` by the modified Lentz method -/
def cf1Ik (v x : α) : Except String α :=
  let tiny : α := recip (sqrt (maxFinite : α))                                     -- :857
  let rec go (fuel : Nat) (k : Nat) (c f d : α) : Except String α :=
    match fuel with
    | 0 => .error "FailedToConverge"                                               -- :883
    | fuel + 1 =>
      let kf : α := ofNatR k
      let a : α := (1.0 : α)                                                       -- :864
      let b := (2.0 : α) * (v + kf) / x                                            -- :865
      let c := b + a / c                                                           -- :866
      let d := mulAdd a d b                                                        -- :867
      let c := if feq c (0.0 : α) then tiny else c                                 -- :868-870
      let d := if feq d (0.0 : α) then tiny else d                                 -- :871-873
      let d := recip d                                                             -- :874
      let delta := c * d                                                           -- :875
      let f := f * delta                                                           -- :876
      if le (abs (delta - (1.0 : α))) epsilon then .ok f                           -- :878-880
      else go fuel (k + 1) c f d
  go (maxIter - 1) 1 tiny tiny (0.0 : α)

/-- `bessel_iv_asymptotic(v, x)` (`bessel.rs:890-919`) -/
def besselIvAsymptotic (v x : α) : Except String α :=
  let prefactor := exp x / sqrt ((2.0 : α) * pi * x)                               -- :891
  if isInfinite prefactor then .ok x                                               -- :893-894
  else
    let mu := (4.0 : α) * v * v                                                    -- :896
    let rec go (fuel : Nat) (k : Nat) (sum term : α) : Except String α :=
      match fuel with
      | 0 => .error "FailedToConverge"
      | fuel + 1 =>
        if gt (abs term) (epsilon * abs sum) then                                  -- :901
          let kf : α := ofNatR k
          let t := mulAdd (2.0 : α) kf (-(1.0 : α))
          let factor := mulAdd t (-t) mu / ((8.0 : α) * x) / kf                    -- :903-907
          if k > 100 then .error "FailedToConverge"                                -- :908-910
          else
            let term := term * (-factor)                                           -- :911
            go fuel (k + 1) (sum + term) term                                      -- :912-913
        else .ok (sum * prefactor)                                                 -- :915
    go 102 1 (1.0 : α) (1.0 : α)

/-- the upward recurrence `bessel.rs:700-707`: `for k in 1..=n { next = 2(u+k)·current/x + prev }` -/
def kRecur (u x : α) : Nat → Nat → α → α → α × α
  | 0, _, prev, current => (prev, current)
  | fuel + 1, k, prev, current =>
    let kf : α := ofNatR k
    let next := (2.0 : α) * (u + kf) * current / x + prev                         -- :704
    kRecur u x fuel (k + 1) current next

/-- `bessel_ikv_temme(v, x)` (`bessel.rs:676-727`): `Ok((I_v(x), K_v(x)))` or the error variant -/
def besselIkvTemme (v0 x : α) : Except String (α × α) := do
  let reflect := lt v0 (0.0 : α)                                                   -- :681
  let v := if reflect then -v0 else v0
  let nR := round v                                                                -- :683
  let u := v - nR                                                                  -- :684
  let n : Int := toInt nR                                                          -- :685
  if lt x (0.0 : α) then throw "Domain"                                            -- :687-688
  if feq x (0.0 : α) then throw "Overflow"                                         -- :689-690
  let w := recip x                                                                 -- :693
  let (ku, ku1) ← if le x (2.0 : α) then temmeIkSeries u x else cf2Ik u x          -- :694-698
  let (kv, kv1) := kRecur u x n.toNat 1 ku ku1                                     -- :700-710
  let lim := powi (mulAdd (4.0 : α) (v * v) (10.0 : α) / ((8.0 : α) * x)) 3 / (24.0 : α)   -- :712
  let iv ← if lt lim ((10.0 : α) * epsilon) && gt x (100.0 : α) then besselIvAsymptotic v x   -- :714-715
           else do let fv ← cf1Ik v x; pure (w / mulAdd kv fv kv1)                 -- :717-718
  if reflect then                                                                  -- :721-723
    let z := u + ofIntR (n % 2)
    pure (mulAdd ((2.0 : α) / pi) (sin (pi * z) * kv) iv, kv)
  else pure (iv, kv)                                                               -- :725

/-- `bessel_ikv_temme(v, x).unwrap().1` where it is `Ok`; junk (`nan`) where the implementation panics —
    the matrix-level functions test `bessFails` first -/
def bessK (v x : α) : α :=
  match besselIkvTemme v x with
  | .ok r => r.2
  | .error _ => nan

/-- `bessel_ikv_temme(v, x)` is `Err(_)`, i.e. `.unwrap()` panics -/
def bessFails (v x : α) : Bool :=
  match besselIkvTemme v x with
  | .ok _ => false
  | .error _ => true

end Bessel

-- ---------------------------------------------------------------------------------------------------------------
-- kernel trees

/-- kernel expression trees: the seven leaf structs and the two composition types of `ops.rs` -/
inductive K (α : Type) where
  /-- `ConstantKernel { scale }` -/
  | const (c : α)
  /-- `RBFKernel { length_scale }` -/
  | rbf (l : α)
  /-- `SEardKernel { length_scale: DVector }` -/
  | seard (ls : List α)
  /-- `ExpSineSquaredKernel { length_scale, periodicity }` -/
  | ess (l p : α)
  /-- `RationalQuadratic { scale, mixture }` -/
  | rq (s a : α)
  /-- `MaternKernel { nu, length_scale }` -/
  | matern (nu l : α)
  /-- `WhiteKernel { noise_level }` -/
  | white (s : α)
  /-- `AddKernel { a, b }` -/
  | add (a b : K α)
  /-- `ProductKernel { a, b }` -/
  | mul (a b : K α)

/-- `KernelError` as far as the modelled functions produce it, plus `panic` (index out of bounds, `unwrap` on
    `Err`, `split_at` past the end, nalgebra dimension assertion) -/
inductive KErr where
  /-- `KernelError::MissingParameters(n)` -/
  | missing (n : Nat)
  /-- `KernelError::ExtraneousParameters(n)` -/
  | extraneous (n : Nat)
  /-- `KernelError::ParameterOutOfBounds { .. }` (from the checked constructor `new`) -/
  | outOfBounds
  /-- the implementation panics -/
  | panic
  deriving DecidableEq, Repr

/-- position of an entry `(i, j)` of the matrix filled by `covariance_with_gradient` -/
inductive Pos where
  /-- `j < i` : computed in the inner loop `for j in 0..i` from `(x.row(i), x.row(j))` -/
  | lower
  /-- `i = j` -/
  | diag
  /-- `i < j` : the mirrored copy of entry `(j, i)` (where the code mirrors) -/
  | upper
  deriving DecidableEq, Repr

def Pos.ofIdx (i j : Nat) : Pos := if j < i then .lower else if i = j then .diag else .upper

section Model
variable {α : Type} [RealLike α]

-- ---- distances (misc.rs, nalgebra norms) ------------------------------------------------------------------------

/-- `e2_norm(m1, m2, scale)` (`misc.rs:46-65`): `zip_fold` of `((a - b) / scale)²` from `0` -/
def e2norm (x y : List α) (scale : α) : α :=
  (List.zip x y).foldl (fun acc ab => let diff := (ab.1 - ab.2) / scale; acc + diff * diff) (0.0 : α)

/-- `E2METRIC.metric_distance(m1, m2)` (`misc.rs:24-42`): squared Euclidean distance -/
def sqDist (x y : List α) : α :=
  (List.zip x y).foldl (fun acc ab => let diff := ab.1 - ab.2; acc + diff * diff) (0.0 : α)

/-- `nalgebra::EuclideanNorm.metric_distance(m1, m2)`: `sqrt` of the squared distance -/
def eucDist (x y : List α) : α := sqrt (sqDist x y)

/-- inner loop of `SEardKernel::covariance` (`seard.rs:76-82`): `for k in 0..c { term = (a[k]-b[k])/ℓ[k]; s += term*term }`
    (the implementation panics when there are more coordinates than length scales; here the sum stops) -/
def seardSum : List α → List α → List α → α → α
  | a :: as, b :: bs, l :: ls, s => let term := (a - b) / l; seardSum as bs ls (s + term * term)
  | _, _, _, s => s

/-- `seard.rs:142-150` — the `d2` of `SEardKernel::covariance_with_gradient`:
    `for k in 0..x.ncols() { d2 += a.zip_fold(&b, 0.0, |acc, c, d| { diff = (c - d)/ℓ[k]; diff.mul_add(diff, acc) }) }`
    (every coordinate difference is divided by every length scale `ℓ[k]`, `k < ncols`) -/
def seardD2 (x y : List α) (ls : List α) : α :=
  ((ls.take x.length).foldl (fun d2 l =>
      d2 + (List.zip x y).foldl (fun acc cd => let diff := (cd.1 - cd.2) / l; mulAdd diff diff acc) (0.0 : α))
    (0.0 : α))

/-- `seard.rs:153-163` — gradient slices of one off-diagonal entry: slice `k < ncols` is
    `-2.0 * (a[k] - b[k]).powi(2) * cov_ij / ℓ[k].powi(3)`; slices `k ≥ ncols` keep the `0.0` of `CovGrad::zeros` -/
def seardGrad (covij : α) : List α → List α → List α → List α
  | [], _, _ => []
  | l :: ls, a :: as, b :: bs => (-(2.0 : α) * powi (a - b) 2 * covij / powi l 3) :: seardGrad covij ls as bs
  | _ :: ls, _, _ => (0.0 : α) :: seardGrad covij ls [] []

-- ---- Matérn ------------------------------------------------------------------------------------------------------

/-- one entry of `MaternKernel::covariance` (`matern.rs:122-137`) -/
def maternCov (nu l : α) (x y : List α) : α :=
  let c := exp2 ((1.0 : α) - nu) / gamma nu                                        -- :122
  let sqrtTwoNu := sqrt ((2.0 : α) * nu)                                           -- :123
  let r := sqrt (e2norm x y l)                                                     -- :127-128
  if lt r epsilon then (1.0 : α)                                                   -- :130-131
  else
    let tmp := sqrtTwoNu * r                                                       -- :133
    c * powf tmp nu * bessK nu tmp                                                 -- :134-136

/-- the argument passed to `bessel_ikv_temme` for this pair, if it is called at all -/
def maternBessArg (nu l : α) (x y : List α) : Option α :=
  let r := sqrt (e2norm x y l)
  if lt r epsilon then none else some (sqrt ((2.0 : α) * nu) * r)

/-- `.unwrap()` of `matern.rs:79` / `:136` panics for this pair -/
def maternPanics (nu l : α) (x y : List α) : Bool :=
  match maternBessArg nu l x y with
  | none => false
  | some t => bessFails nu t

/-- one entry of `MaternKernel::autocov` (`matern.rs:56-87`).  Lower triangle as `covariance`; the diagonal is `1.0`
    (`:83`); the upper triangle is the mirror of the lower one **only in the `else` branch** (`:80`): when
    `r < EPSILON` (`:73-74`) only `dm[(i, j)]` is written and `dm[(j, i)]` keeps the `0.0` of `DMatrix::zeros`. -/
def maternAutocov (nu l : α) : Pos → List α → List α → α
  | .diag, _, _ => (1.0 : α)
  | .lower, x, y => maternCov nu l x y
  | .upper, x, y =>
    -- entry (i, j), i < j: written at iteration (j, i) from (x.row(j), x.row(i)) = (y, x)
    if lt (sqrt (e2norm y x l)) epsilon then (0.0 : α) else maternCov nu l y x

/-- `const EPS: f64 = 1e-10` (`matern.rs:180`) -/
def maternEps : α := (1e-10 : α)

-- ---- covariance(x1, x2): one entry ---------------------------------------------------------------------------------

/-- entry `(i, j)` of `covariance(x1, x2)` as a function of `x = x1.row(i)`, `x' = x2.row(j)` -/
def cov : K α → List α → List α → α
  -- constant_kernel.rs:70  `DMatrix::from_element(.., self.scale)`
  | .const c, _, _ => c
  -- rbf.rs:79-84  `d = e2_norm(row_i, row_j, ℓ)`; `(-0.5 * d).exp()`
  | .rbf l, x, y => exp (-(0.5 : α) * e2norm x y l)
  -- seard.rs:76-86
  | .seard ls, x, y => exp (-(0.5 : α) * seardSum x y ls (0.0 : α))
  -- exp_sin_squared.rs:80-86
  | .ess l p, x, y =>
    let l2 := powi l 2
    let d := eucDist x y
    let s2 := powi (sin (pi * d / p)) 2
    exp (-(2.0 : α) * s2 / l2)
  -- rational_quadratic.rs:70-74
  | .rq s a, x, y =>
    let d := sqrt ((2.0 : α) * s * s * a)
    let t := e2norm x y d
    powf ((1.0 : α) + t) (-a)
  -- matern.rs:122-137
  | .matern nu l, x, y => maternCov nu l x y
  -- white_kernel.rs:53  `DMatrix::zeros(..)`
  | .white _, _, _ => (0.0 : α)
  -- ops.rs:87-90  `a + b`
  | .add a b, x, y => cov a x y + cov b x y
  -- ops.rs:215-217  `cov_a.component_mul(&cov_b)`
  | .mul a b, x, y => cov a x y * cov b x y

/-- computing entry `(x, x')` of `covariance` panics (SEard: `self.length_scale[k]` out of bounds, `seard.rs:80`;
    Matérn: `.unwrap()` of a failed Bessel evaluation, `matern.rs:136`) -/
def covPanics : K α → List α → List α → Bool
  | .seard ls, x, _ => decide (ls.length < x.length)
  | .matern nu l, x, y => maternPanics nu l x y
  | .add a b, x, y => covPanics a x y || covPanics b x y
  | .mul a b, x, y => covPanics a x y || covPanics b x y
  | _, _, _ => false

-- ---- diag(x) ---------------------------------------------------------------------------------------------------------

/-- the value of every element of the vector returned by `diag(x)` (the element for the point `x`; no implementation
    looks at the coordinates) -/
def diagEntry : K α → List α → α
  | .const c, _ => c                     -- constant_kernel.rs:83
  | .rbf _, _ => (1.0 : α)               -- rbf.rs:97
  | .seard _, _ => (1.0 : α)             -- seard.rs:99
  | .ess _ _, _ => (1.0 : α)             -- exp_sin_squared.rs:100
  | .rq _ _, _ => (1.0 : α)              -- rational_quadratic.rs:87
  | .matern _ _, _ => (1.0 : α)          -- matern.rs:154
  | .white s, _ => s                     -- white_kernel.rs:67  (`noise_level`)
  | .add a b, x => diagEntry a x + diagEntry b x      -- ops.rs:101
  | .mul a b, x => diagEntry a x * diagEntry b x      -- ops.rs:233

/-- `x.len()` of a matrix: the number of **elements** (rows × columns) -/
def nElems (X : List (List α)) : Nat := (X.map List.length).foldl (· + ·) 0

/-- `diag(x)`: the vector itself.  ESS and RQ use `x.len()` (`exp_sin_squared.rs:100`, `rational_quadratic.rs:87`),
    all the others `x.nrows()`; `zip_map` (`ops.rs:101`) and `assert_eq!` (`ops.rs:232`) panic on different lengths. -/
def diag : K α → List (List α) → Except KErr (List α)
  | .ess _ _, X => .ok (List.replicate (nElems X) (1.0 : α))
  | .rq _ _, X => .ok (List.replicate (nElems X) (1.0 : α))
  | .add a b, X => do
    let da ← diag a X
    let db ← diag b X
    if da.length = db.length then pure (List.zipWith (· + ·) da db) else throw .panic
  | .mul a b, X => do
    let da ← diag a X
    let db ← diag b X
    if da.length = db.length then pure (List.zipWith (· * ·) da db) else throw .panic
  | k, X => .ok (X.map (diagEntry k))

-- ---- covariance_with_gradient(x): one entry --------------------------------------------------------------------------

/-- entry `(i, j)` of the pair returned by `covariance_with_gradient(x)`: the covariance entry and the entries of the
    gradient slices, in `parameters()` order.  For `Pos.lower`, `x = x.row(i)`, `x' = x.row(j)` with `j < i`. -/
def covGradEntry : K α → Pos → List α → List α → α × List α
  -- constant_kernel.rs:107-112
  | .const c, _, _, _ => (c, [c])
  -- rbf.rs:126-142
  | .rbf l, .lower, x, y =>
    let d2 := e2norm x y l                                  -- :129
    let covij := exp (-d2 / (2.0 : α))                      -- :130-131
    (covij, [d2 * covij])                                   -- :137
  | .rbf l, .upper, x, y =>                                 -- :134, :139 mirror of (j, i)
    let d2 := e2norm y x l
    let covij := exp (-d2 / (2.0 : α))
    (covij, [d2 * covij])
  | .rbf _, .diag, _, _ => ((1.0 : α), [(0.0 : α)])         -- :141, `CovGrad::zeros`
  -- seard.rs:134-166: the covariance is `DMatrix::identity(n, n)` and is never written
  | .seard ls, .lower, x, y =>
    let covij := exp (-(seardD2 x y ls) / (2.0 : α))        -- :151
    ((0.0 : α), seardGrad covij ls x y)
  | .seard ls, .upper, x, y =>
    let covij := exp (-(seardD2 y x ls) / (2.0 : α))
    ((0.0 : α), seardGrad covij ls y x)                     -- :162 `grad[(j,i,k)] = grad[(i,j,k)]`
  | .seard ls, .diag, _, _ => ((1.0 : α), ls.map (fun _ => (0.0 : α)))
  -- exp_sin_squared.rs:132-163
  | .ess l p, .lower, x, y =>
    let l2 := powi l 2                                      -- :136
    let d := eucDist x y                                    -- :141
    let arg := pi * d / p                                   -- :142
    let sinArg := sin arg
    let sinArg2 := powi sinArg 2
    let cosArg := cos arg
    let k := exp (-(2.0 : α) * sinArg2 / l2)                -- :148
    (k, [(4.0 : α) * sinArg2 * k / l2,                      -- :152
         ((4.0 : α) * arg / l2) * cosArg * sinArg * k])     -- :156
  | .ess l p, .upper, x, y =>
    let l2 := powi l 2
    let d := eucDist y x
    let arg := pi * d / p
    let sinArg := sin arg
    let sinArg2 := powi sinArg 2
    let cosArg := cos arg
    let k := exp (-(2.0 : α) * sinArg2 / l2)
    (k, [(4.0 : α) * sinArg2 * k / l2, ((4.0 : α) * arg / l2) * cosArg * sinArg * k])
  | .ess _ _, .diag, _, _ => ((1.0 : α), [(0.0 : α), (0.0 : α)])   -- :161
  -- rational_quadratic.rs:114-142
  | .rq s a, .lower, x, y =>
    let d := (2.0 : α) * a * powi s 2                       -- :117
    let d2 := sqDist x y                                    -- :121
    let temp := d2 / d
    let base := (1.0 : α) + temp
    let k := powf base (-a)                                 -- :124
    (k, [d2 * k / (powi s 2 * base),                        -- :128
         k * mulAdd (ln base) (-a) (d2 / ((2.0 : α) * powi s 2 * base))])   -- :129-132
  | .rq s a, .upper, x, y =>
    let d := (2.0 : α) * a * powi s 2
    let d2 := sqDist y x
    let temp := d2 / d
    let base := (1.0 : α) + temp
    let k := powf base (-a)
    (k, [d2 * k / (powi s 2 * base), k * mulAdd (ln base) (-a) (d2 / ((2.0 : α) * powi s 2 * base))])
  | .rq _ _, .diag, _, _ => ((1.0 : α), [(0.0 : α), (0.0 : α)])    -- :140
  -- matern.rs:170-207: forward differences of `autocov` in the log-parameters, step `EPS = 1e-10`; both perturbed
  -- kernels are rebuilt by `reparameterize`, i.e. BOTH parameters go through `exp(ln(·))`
  | .matern nu l, pos, x, y =>
    let c := maternAutocov nu l pos x y                                                      -- :184
    let cV := maternAutocov (exp (ln nu + maternEps)) (exp (ln l)) pos x y                   -- :186-191
    let cL := maternAutocov (exp (ln nu)) (exp (ln l + maternEps)) pos x y                   -- :195-200
    (c, [(cV - c) / maternEps, (cL - c) / maternEps])                                        -- :193, :202
  -- white_kernel.rs:91-98  `from_diagonal_element(n, n, noise_level)` twice
  | .white s, .diag, _, _ => (s, [s])
  | .white _, _, _, _ => ((0.0 : α), [(0.0 : α)])
  -- ops.rs:132-138  `cov_a + cov_b`, `grad_a.concat_cols(&grad_b)`
  | .add a b, pos, x, y =>
    let ea := covGradEntry a pos x y
    let eb := covGradEntry b pos x y
    (ea.1 + eb.1, ea.2 ++ eb.2)
  -- ops.rs:263-269  `cov_a ∘ cov_b`, `grad_a.component_mul(&cov_b) ++ grad_b.component_mul(&cov_a)`
  | .mul a b, pos, x, y =>
    let ea := covGradEntry a pos x y
    let eb := covGradEntry b pos x y
    (ea.1 * eb.1, ea.2.map (· * eb.1) ++ eb.2.map (· * ea.1))

/-- computing the lower-triangle entry `(x, x')` in `covariance_with_gradient` panics (SEard: index out of bounds
    `seard.rs:147`/`:160`; Matérn: a failed Bessel evaluation in one of the three `autocov` calls) -/
def gradEntryPanics : K α → List α → List α → Bool
  | .seard ls, x, _ => decide (ls.length < x.length)
  | .matern nu l, x, y =>
    maternPanics nu l x y || maternPanics (exp (ln nu + maternEps)) (exp (ln l)) x y
      || maternPanics (exp (ln nu)) (exp (ln l + maternEps)) x y
  | .add a b, x, y => gradEntryPanics a x y || gradEntryPanics b x y
  | .mul a b, x, y => gradEntryPanics a x y || gradEntryPanics b x y
  | _, _, _ => false

-- ---- parameters ------------------------------------------------------------------------------------------------------

/-- `n_parameters()` -/
def nParameters : K α → Nat
  | .const _ => 1 | .rbf _ => 1 | .white _ => 1        -- constant_kernel.rs:53, rbf.rs:55, white_kernel.rs:102
  | .seard ls => ls.length                             -- seard.rs:170
  | .ess _ _ => 2 | .rq _ _ => 2 | .matern _ _ => 2    -- exp_sin_squared.rs:61, rational_quadratic.rs:54, matern.rs:101
  | .add a b => nParameters a + nParameters b          -- ops.rs:66
  | .mul a b => nParameters a + nParameters b          -- ops.rs:198

/-- `parameters()`: the natural logarithms of the fields, in declaration order; compositions chain `a` then `b` -/
def parameters : K α → List α
  | .const c => [ln c]                                 -- constant_kernel.rs:87
  | .rbf l => [ln l]                                   -- rbf.rs:101
  | .seard ls => ls.map ln                             -- seard.rs:103-106
  | .ess l p => [ln l, ln p]                           -- exp_sin_squared.rs:106
  | .rq s a => [ln s, ln a]                            -- rational_quadratic.rs:91
  | .matern nu l => [ln nu, ln l]                      -- matern.rs:158
  | .white s => [ln s]                                 -- white_kernel.rs:71
  | .add a b => parameters a ++ parameters b           -- ops.rs:104-112
  | .mul a b => parameters a ++ parameters b           -- ops.rs:236-243

/-- the checked constructors `X::new(v)`: `if v <= 0.0 { Err(ParameterOutOfBounds) }` -/
def chk1 (v : α) (mk : α → K α) : Except KErr (K α) :=
  if le v (0.0 : α) then .error .outOfBounds else .ok (mk v)

def chk2 (v w : α) (mk : α → α → K α) : Except KErr (K α) :=
  if le v (0.0 : α) then .error .outOfBounds else if le w (0.0 : α) then .error .outOfBounds else .ok (mk v w)

/-- `reparameterize(params)` -/
def reparameterize : K α → List α → Except KErr (K α)
  -- constant_kernel.rs:90-96
  | .const _, [] => .error (.missing 1)
  | .const _, [v] => chk1 (exp v) .const
  | .const _, ps => .error (.extraneous (ps.length - 1))
  -- rbf.rs:104-110
  | .rbf _, [] => .error (.missing 1)
  | .rbf _, [v] => chk1 (exp v) .rbf
  | .rbf _, ps => .error (.extraneous (ps.length - 1))
  -- white_kernel.rs:74-80
  | .white _, [] => .error (.missing 1)
  | .white _, [v] => chk1 (exp v) .white
  | .white _, ps => .error (.extraneous (ps.length - 1))
  -- seard.rs:109-123  (`Self::new(..).unwrap()` panics if some `exp` is not `> 0`)
  | .seard ls, ps =>
    if ps.length = ls.length then
      let exped := ps.map exp
      if exped.all (fun v => gt v (0.0 : α)) then .ok (.seard exped) else .error .panic
    else if ps.length > ls.length then .error (.extraneous (ps.length - ls.length))
    else .error (.missing (ls.length - ps.length))
  -- exp_sin_squared.rs:111-120   NB `:118` reports `params.len() - 1`
  | .ess _ _, [] => .error (.missing 2)
  | .ess _ _, [_] => .error (.missing 1)
  | .ess _ _, [v, w] => chk2 (exp v) (exp w) .ess
  | .ess _ _, ps => .error (.extraneous (ps.length - 1))
  -- rational_quadratic.rs:94-103   NB `:101` reports `params.len() - 1`
  | .rq _ _, [] => .error (.missing 2)
  | .rq _ _, [_] => .error (.missing 1)
  | .rq _ _, [v, w] => chk2 (exp v) (exp w) .rq
  | .rq _ _, ps => .error (.extraneous (ps.length - 1))
  -- matern.rs:161-168
  | .matern _ _, [] => .error (.missing 2)
  | .matern _ _, [_] => .error (.missing 1)
  | .matern _ _, [v, w] => chk2 (exp v) (exp w) .matern
  | .matern _ _, ps => .error (.extraneous (ps.length - 2))
  -- ops.rs:114-121: `params.split_at(self.a.n_parameters())` panics when `params.len() < a.n_parameters()`
  | .add a b, ps =>
    if ps.length < nParameters a then .error .panic
    else do
      let a' ← reparameterize a (ps.take (nParameters a))
      let b' ← reparameterize b (ps.drop (nParameters a))
      pure (.add a' b')
  -- ops.rs:245-252
  | .mul a b, ps =>
    if ps.length < nParameters a then .error .panic
    else do
      let a' ← reparameterize a (ps.take (nParameters a))
      let b' ← reparameterize b (ps.drop (nParameters a))
      pure (.mul a' b')

/-- `consume_parameters(params)` (trait default, `mod.rs:77-93`): take `n_parameters()` values, report
    `MissingParameters(n - i)` if the iterator ends after `i` of them, `reparameterize` with exactly `n` values and hand
    back the rest -/
def consumeParameters (k : K α) (ps : List α) : Except KErr (K α × List α) :=
  let n := nParameters k
  if ps.length < n then .error (.missing (n - ps.length))
  else do
    let k' ← reparameterize k (ps.take n)
    pure (k', ps.drop n)

-- ---- matrix level ----------------------------------------------------------------------------------------------------

/-- `covariance(x1, x2)`: rows of the `x1.nrows() × x2.nrows()` matrix -/
def covMatrix (k : K α) (X X' : List (List α)) : Except KErr (List (List α)) :=
  if X.any (fun x => X'.any (fun x' => covPanics k x x')) then .error .panic
  else .ok (X.map (fun x => X'.map (fun x' => cov k x x')))

/-- `slices[0]` of an empty `CovGrad` is indexed by `concat_cols` / `component_mul` (`covgrad.rs:56`, `:112`):
    a composition panics when one operand has no parameter (only `SEard` with an empty length-scale vector) -/
def emptyGradPanics : K α → Bool
  | .add a b => nParameters a == 0 || nParameters b == 0 || emptyGradPanics a || emptyGradPanics b
  | .mul a b => nParameters a == 0 || nParameters b == 0 || emptyGradPanics a || emptyGradPanics b
  | _ => false

/-- all the entries `(i, j)` with their positions -/
def entries (k : K α) (X : List (List α)) : List (List (α × List α)) :=
  (enumL X).map (fun ix => (enumL X).map (fun jy => covGradEntry k (Pos.ofIdx ix.1 jy.1) ix.2 jy.2))

/-- `covariance_with_gradient(x)`: rows of the `n × n` covariance and the `n_parameters()` gradient slices -/
def covWithGrad (k : K α) (X : List (List α)) : Except KErr (List (List α) × List (List (List α))) :=
  if emptyGradPanics k then .error .panic
  else if (enumL X).any (fun ix => (enumL X).any (fun jy => decide (jy.1 < ix.1) && gradEntryPanics k ix.2 jy.2)) then
    .error .panic
  else
    let es := entries k X
    .ok (es.map (fun row => row.map (·.1)),
         (List.range (nParameters k)).map (fun p => es.map (fun row => row.map (fun e => e.2.getD p (0.0 : α)))))

/-- the round trip `self.reparameterize(&self.parameters())` followed by `covariance(X, X)` of the rebuilt kernel
    (op `kernel.roundtrip`): the parameters of the rebuilt kernel and its covariance -/
def roundTrip (k : K α) (X : List (List α)) : Except KErr (List α × List (List α)) := do
  let k' ← reparameterize k (parameters k)
  let m ← covMatrix k' X X
  pure (parameters k', m)

-- ---- textbook closed forms (Spec, NOT transcribed from the code) -----------------------------------------------------

/-- Matérn covariance for the half-integer orders (Rasmussen & Williams, GPML eq. 4.17), `t = √(2ν)·‖x−x'‖/ℓ`:
    `ν = 1/2: e^{-t}`,  `ν = 3/2: (1 + t) e^{-t}`,  `ν = 5/2: (1 + t + t²/3) e^{-t}`.  `sel = 0 | 1 | 2`. -/
def maternClosed (sel : Nat) (l : α) (x y : List α) : α :=
  let r := sqrt (sqDist x y) / l
  match sel with
  | 0 => exp (-r)
  | 1 => let t := sqrt (3.0 : α) * r; ((1.0 : α) + t) * exp (-t)
  | _ => let t := sqrt (5.0 : α) * r; ((1.0 : α) + t + t * t / (3.0 : α)) * exp (-t)

end Model
end Hand.Kernel
