import RvModel.Hand.Dispatch
import RvModel.Hand.Stick
import RvModel.Hand.StickConj
/-
  driver entries of the C05S hand model (same op names and formats as harness/src/manual_c05s.rs).

  tokens
    <sb>    = <alpha:f64> L<k> a_1 b_1 … a_k b_k        the prior: tail `UnitPowerLaw(alpha)`, prefix `Beta(a_i, b_i)`
                                                         (NOTE: `L<k>` counts PAIRS: it is followed by 2k floats)
    <dos>   = D L<n> x_1 … x_n   |   Q L<m> c_0 … c_{m-1}    raw data  |  the statistic with these counts (trailing zeros allowed)
  ops (kind token `-`)
    sb.posterior          <sb> <dos>            -> <sb> | PANIC           posterior (both arms: Data -> posterior(Data), Q -> posterior(SuffStat))
    sb.posterior_stat     <sb> L<m> counts      -> <sb> | PANIC           posterior_from_suffstat
    sb.ln_m               <sb> <dos>            -> f64
    sb.ln_m_cache         <sb> <dos>            -> f64                    ln_m_with_cache(&ln_m_cache(), x)
    sb.m                  <sb> <dos>            -> f64                    trait default exp(ln_m)
    sb.ln_pp              <sb> <y> <dos>        -> f64 | PANIC            trait default ln_pp
    sb.ln_pp_cache        <sb> <dos> L<j> ys    -> L<j> f64 | PANIC       ONE cache = ln_pp_cache(x), ln_pp_with_cache for every y
    sb.pp                 <sb> <y> <dos>        -> f64 | PANIC            the overriding pp
    sb.pp_cache           <sb> <dos> L<j> ys    -> L<j> f64 | PANIC       one cache, pp_with_cache (trait default) for every y
    sb.ln_f               <sb> L<k> w           -> f64 | PANIC            HasDensity<PartialWeights>::ln_f
    sb.f                  <sb> L<k> w           -> f64 | PANIC
    sb.breaks             L<k> w                -> L<k> b | PANIC         BreakSequence::from(&PartialWeights)
    sb.weights            L<k> b                -> L<k> w                 PartialWeights::from(&BreakSequence)
    sb.rising_beta_prod   <x> <a:nat> <y> <b:nat> -> f64                 (model only — the Rust fn is private; harness answers NOOP)
    sbstat.observe_forget L<m> counts <j> (o <i> | f <i>)*j -> L<m'> counts L<m'> s_0 c_0 … <n> | PANIC
                                                 start = the statistic with these counts; answer = counts(), break_pairs() (pairs!), n()
    sbstat.from_data      L<n> xs               -> L<m> counts L<m> s_0 c_0 … <n>      StickBreakingDiscreteSuffStat::from(&[usize])
    sbd.ln_f_stat         L<k> breaks L<m> counts -> f64 | E:NeedsRng     StickBreakingDiscrete over the pushed breaks, ln_f_stat of the statistic
                                                 (m <= k required: more counts than breaks would make the sequence DRAW breaks)
    FRESH seeded sequences (nothing realised when the op starts).  `L<k> breaks` = the first k breaks of
    `StickSequence::new(UnitPowerLaw(alpha), Some(seed))` (harness op `stick.breaks <alpha> <seed> <k>`): the harness ignores them and
    lets the real sequence draw, the model replays them as the break stream; a model that needs more than k breaks answers E:NeedsRng.
    sbd.ln_f_stat_fresh   <alpha> <seed> L<k> breaks L<m> counts        -> f64      ln_f_stat is the FIRST call on the object
    sbd.sum_ln_f_fresh    <alpha> <seed> L<k> breaks L<n> xs            -> f64      sum of ln_f(x) in order, on another fresh object
    sbd.ln_f_stat_states  <alpha> <seed> L<k> breaks L<m> counts <ext>  -> f64 f64 f64   ln_f_stat fresh; again; after ln_f(&ext)
-/
namespace HandDispatchC05S
open GenDispatch Wire Hand Hand.StickConj

def rdSB : Rd (SB Float) := do
  let alpha ← rdF
  let pre ← rdL (rdPair rdF rdF)
  pure ⟨pre.map (fun (ab : Float × Float) => (⟨ab.1, ab.2⟩ : Gen.Beta Float)), ⟨alpha⟩⟩

def wrSB (s : SB Float) : String :=
  wrF s.break_tail.alpha ++ " " ++ wrL (fun (b : Gen.Beta Float) => wrF b.alpha ++ " " ++ wrF b.beta) s.break_prefix

def rdStat : Rd (Stat Float) := do let c ← rdL rdN; pure ⟨c⟩

def rdDosSB : Rd (Dos Float) := rdDos rdN rdStat

def wrStat (s : Stat Float) : String :=
  wrL wrN s.counts ++ " " ++ wrL (fun (p : Nat × Nat) => wrN p.1 ++ " " ++ wrN p.2) s.breakPairs ++ " " ++ wrN s.n

def wrOpt {β : Type} (w : β → String) : Option β → String
  | none => "PANIC"
  | some x => w x

def rdStatOp : Rd (Bool × Nat) := do
  let t ← Wire.next
  let i ← rdN
  if t == "o" then pure (true, i) else if t == "f" then pure (false, i) else throw s!"bad stat op {t}"

def tableC05S : List (String × Rd String) := [
  ("sb.posterior", do
      let _ ← Wire.next; let sb ← rdSB; let x ← rdDosSB
      pure (wrOpt wrSB (posterior sb x))),
  ("sb.posterior_stat", do
      let _ ← Wire.next; let sb ← rdSB; let st ← rdStat
      pure (wrOpt wrSB (posteriorFromSuffstat sb st))),
  ("sb.ln_m", do
      let _ ← Wire.next; let sb ← rdSB; let x ← rdDosSB
      pure (wrF (lnM sb x))),
  ("sb.ln_m_cache", do
      let _ ← Wire.next; let sb ← rdSB; let x ← rdDosSB
      pure (wrF (lnMWithCache sb () x))),
  ("sb.m", do
      let _ ← Wire.next; let sb ← rdSB; let x ← rdDosSB
      pure (wrF (m sb x))),
  ("sb.ln_pp", do
      let _ ← Wire.next; let sb ← rdSB; let y ← rdN; let x ← rdDosSB
      pure (wrOpt wrF (lnPp sb y x))),
  ("sb.ln_pp_cache", do
      let _ ← Wire.next; let sb ← rdSB; let x ← rdDosSB; let ys ← rdL rdN
      pure (wrOpt (fun cache => wrL wrF (ys.map (lnPpWithCache sb cache))) (lnPpCache sb x))),
  ("sb.pp", do
      let _ ← Wire.next; let sb ← rdSB; let y ← rdN; let x ← rdDosSB
      pure (wrOpt wrF (pp sb y x))),
  ("sb.pp_cache", do
      let _ ← Wire.next; let sb ← rdSB; let x ← rdDosSB; let ys ← rdL rdN
      pure (wrOpt (fun cache => wrL wrF (ys.map (ppWithCache sb cache))) (lnPpCache sb x))),
  ("sb.ln_f", do
      let _ ← Wire.next; let sb ← rdSB; let w ← rdL rdF
      pure (wrOpt wrF (lnF sb w))),
  ("sb.f", do
      let _ ← Wire.next; let sb ← rdSB; let w ← rdL rdF
      pure (wrOpt wrF (f sb w))),
  ("sb.breaks", do
      let _ ← Wire.next; let w ← rdL rdF
      pure (wrOpt (wrL wrF) (breaksOfWeights w))),
  ("sb.weights", do
      let _ ← Wire.next; let b ← rdL rdF
      pure (wrL wrF (weightsOfBreaks b))),
  ("sb.rising_beta_prod", do
      let _ ← Wire.next; let x ← rdF; let a ← rdN; let y ← rdF; let b ← rdN
      pure (wrF (risingBetaProd x a y b))),
  ("sbstat.observe_forget", do
      let _ ← Wire.next; let st ← rdStat; let j ← rdN; let ops ← rdRep rdStatOp j
      let r := ops.foldl (fun (s : Option (Stat Float)) (o : Bool × Nat) =>
        s.bind (fun s => if o.1 then some (s.observe o.2) else s.forget o.2)) (some st)
      pure (wrOpt wrStat r)),
  ("sbstat.from_data", do
      let _ ← Wire.next; let xs ← rdL rdN
      pure (wrStat (Stat.ofData xs))),
  ("sbd.ln_f_stat", do
      let _ ← Wire.next; let bs ← rdL rdF; let counts ← rdL rdN
      if counts.length > bs.length then pure "E:NeedsRng" else
      let s := bs.foldl (fun (s : Stick.S Float) p => Stick.pushBreak p s) Stick.init
      pure (wrF (lnFStatOfWeights (Stick.weightsOf s.ccdf) counts))),
  ("sbd.ln_f_stat_fresh", do
      let _ ← Wire.next; let _alpha ← rdF; let _seed ← rdN; let bs ← rdL rdF; let counts ← rdL rdN
      if counts.length > bs.length then pure "E:NeedsRng" else
      let breaks : Nat → Float := fun i => bs.getD i RealLike.nan
      pure (wrF (sbdLnFStat breaks Stick.init counts).1)),
  ("sbd.sum_ln_f_fresh", do
      let _ ← Wire.next; let _alpha ← rdF; let _seed ← rdN; let bs ← rdL rdF; let xs ← rdL rdN
      if xs.any (fun x => x + 1 > bs.length) then pure "E:NeedsRng" else
      let breaks : Nat → Float := fun i => bs.getD i RealLike.nan
      pure (wrF (sbdSumLnF breaks Stick.init xs).1)),
  ("sbd.ln_f_stat_states", do
      let _ ← Wire.next; let _alpha ← rdF; let _seed ← rdN; let bs ← rdL rdF; let counts ← rdL rdN; let ext ← rdN
      if counts.length > bs.length || ext + 1 > bs.length then pure "E:NeedsRng" else
      let breaks : Nat → Float := fun i => bs.getD i RealLike.nan
      let r1 := sbdLnFStat breaks Stick.init counts
      let r2 := sbdLnFStat breaks r1.2 counts
      let r3 := sbdLnF breaks r2.2 ext
      let r4 := sbdLnFStat breaks r3.2 counts
      pure (wrF r1.1 ++ " " ++ wrF r2.1 ++ " " ++ wrF r4.1))
]

end HandDispatchC05S
