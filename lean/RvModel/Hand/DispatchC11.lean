import RvModel.Wire
import RvModel.FloatInst
import RvModel.Gen.Dispatch
import RvModel.Hand.Mixture
/-
  Driver entries of property C11 (hand model `Hand.Mixture` on the `Float` carrier).  Same op names as
  `harness/src/manual_c11.rs`; every entry first consumes the kind token (`-`).

  argument tokens:  <W> = `L<n> w…` weights;  <G> = `L<k> mu sigma …`;  <P> = `L<k> rate …`;  <B> = `L<k> p …`
    mix.gauss.{ln_f,f,cdf,pdf,ln_pdf} - <W> <G> <x:f64>      ↦ f64          (mixture built with new_unchecked)
    mix.gauss.supports                - <W> <G> <x:f64>      ↦ T|F
    mix.gauss.{mean,variance}         - <W> <G>              ↦ N | S f64
    mix.pois.{ln_f,f,cdf,pmf,ln_pmf}  - <W> <P> <x:nat(u32)> ↦ f64 ;  .supports ↦ T|F ;  .{mean,variance} - <W> <P>
    mix.bern.{ln_f,f,cdf,pmf,ln_pmf}  - <W> <B> <x:T|F>      ↦ f64 ;  .supports ↦ T|F ;  .{mean,variance} - <W> <B>
    mix.pareto.* / mix.unif.*         - <W> L<k> (shape scale)* / L<k> (a b)*  <x:f64>   same eight queries as mix.gauss.*
    mix.cat.{pmf,ln_pmf,supports,ln_f,f,cdf} - <W> L<k> (L<n> ln_w…)* <x:nat>   (ln_f/f/cdf panic in Rust when some
                                        component has x ≥ n: only ask them for x below every n)
    mix.gauss.entropy                 - <W> <G>              ↦ f64 | PANIC      (model of the quadrature entropy)
    mix.pois.entropy / mix.bern.entropy / mix.cat.entropy - <W> <P|B|cats>   ↦ f64 | PANIC   (entropy() as coded: count_entropy_range
                                        sweep / Σ f ln f (sign as coded) / Σ over the categories of the FIRST component)
    mix.gauss.quad_bounds             - <W> <G>              ↦ lower upper | PANIC
    mix.gauss.entropy_b               - <W> <G> <lower> <upper> ↦ f64 | PANIC   (model only: the entropy with the given
                                        integration bounds — feed the implementation's quad_bounds)
    mix.moments                       - <W> L<k> (N | S mean)* L<k> (N | S var)* ↦ <opt mean> <opt variance>
                                        (model only: mixture moments from component moments; oracle of mix.f32.moments)
    mix.new             - <W> <k>                 ↦ <W> <k>  |  E:<Variant>         (k tagged components)
    mix.uniform         - <k>                     ↦ <W> <k>  |  E:<Variant>
    mix.set_weights     - <W0> <k> <W1>           ↦ U <W after> | E:<Variant> <W after>   (start: new_unchecked(W0, k comps))
    mix.set_components  - <W> <k> <G>             ↦ U <W> <G after> | E:<Variant> <W> <G after>  (old comps: (i, 1.0))
    mix.combine         - L<m> (<W> <G>)*m        ↦ <W> <G>
    mix.pairs_roundtrip - L<k> (w mu sigma)*k     ↦ L<k> (w mu sigma)*k  |  E:<Variant>    (try_from, then into)
    mix.to_pairs        - <W> <G>                 ↦ L<j> (w mu sigma)*j                    (new_unchecked, then into)
    mix.draw_index      - <W> <word:nat>          ↦ index | PANIC     (pflips(&W, 1, Script[word])[0])
    mix.gauss.draw      - <W> <G> <word:nat>      ↦ mu of the drawn component | PANIC
                          (real side: Mixture::draw with generator words [word, 0x8000000000000064]: the second word
                           makes the ziggurat return the standard normal variate 0, so the draw is `mu_k + sigma_k*0`)
    mix.gauss.ln_f_after_set_weights - <W0> <G> <W1> <x> ↦ <U|E:Variant> <ln_f after> <ln_f of a fresh mixture with the same weights>
                          (real side: ln_f is queried BEFORE set_weights, so a stale `ln_weights` cache would show)
-/
namespace HandDispatchC11
open Wire Hand.Mixture

abbrev GMix := Mix Float Float
abbrev TMix := Mix Float Unit

def rdGauss : Rd (List (Gen.Gaussian Float)) := rdL GenDispatch.rd_Gaussian
def rdPois : Rd (List (Gen.Poisson Float)) := rdL GenDispatch.rd_Poisson
def rdBern : Rd (List (Gen.Bernoulli Float)) := rdL GenDispatch.rd_Bernoulli

def rdParMix : Rd (Mix Float Float) := do
  let w ← rdL rdF; let g ← rdL GenDispatch.rd_Pareto; pure ⟨w, g.map paretoComp⟩
def rdUniMix : Rd (Mix Float Float) := do
  let w ← rdL rdF; let g ← rdL GenDispatch.rd_Uniform; pure ⟨w, g.map unifComp⟩
def rdCatMix : Rd (Mix Float Nat) := do
  let w ← rdL rdF; let g ← rdL GenDispatch.rd_Categorical; pure ⟨w, g.map catComp⟩
def rdGMix : Rd GMix := do
  let w ← rdL rdF; let g ← rdGauss; pure ⟨w, g.map gaussComp⟩
def rdPMix : Rd (Mix Float Nat) := do
  let w ← rdL rdF; let g ← rdPois; pure ⟨w, g.map poisComp⟩
def rdBMix : Rd (Mix Float Bool) := do
  let w ← rdL rdF; let g ← rdBern; pure ⟨w, g.map bernComp⟩

/-- tagged components `(mu, sigma)` -/
def rdTags : Rd (List (Comp Float Unit)) := rdL (do let a ← rdF; let b ← rdF; pure (tagComp a b))
def rdTMix : Rd TMix := do
  let w ← rdL rdF; let c ← rdTags; pure ⟨w, c⟩
def wrTag (c : Comp Float Unit) : String := wrF (c.lnF ()) ++ " " ++ wrF (c.f ())
def wrTags (cs : List (Comp Float Unit)) : String := wrL wrTag cs
def stdTags (k : Nat) : List (Comp Float Unit) :=
  (List.range k).map (fun i => tagComp (Float.ofNat i) 1.0)
def wrMixK (m : TMix) : String := wrL wrF m.weights ++ " " ++ wrN m.comps.length

/-- the family of query entries for one component kind -/
def queries {Ob : Type} (pre : String) (dens : String) (rdM : Rd (Mix Float Ob)) (rdX : Rd Ob) :
    List (String × Rd String) :=
  let q (name : String) (g : Mix Float Ob → Ob → String) : String × Rd String :=
    (pre ++ name, do let _ ← Wire.next; let m ← rdM; let x ← rdX; pure (g m x))
  let q0 (name : String) (g : Mix Float Ob → String) : String × Rd String :=
    (pre ++ name, do let _ ← Wire.next; let m ← rdM; pure (g m))
  [ q "ln_f" (fun m x => wrF (lnF m x)),
    q "f" (fun m x => wrF (f m x)),
    q "cdf" (fun m x => wrF (cdf m x)),
    q dens (fun m x => wrF (pdf m x)),
    q ("ln_" ++ dens) (fun m x => wrF (lnPdf m x)),
    q "supports" (fun m x => wrB (supports m x)),
    q0 "mean" (fun m => wrO wrF (mean m)),
    q0 "variance" (fun m => wrO wrF (variance m)) ]

def wrIdx : Option Nat → String
  | none => "PANIC"
  | some i => wrN i

def tableC11 : List (String × Rd String) :=
  queries "mix.gauss." "pdf" rdGMix rdF ++
  queries "mix.pois." "pmf" rdPMix rdN ++
  queries "mix.bern." "pmf" rdBMix rdB ++
  queries "mix.pareto." "pdf" rdParMix rdF ++
  queries "mix.unif." "pdf" rdUniMix rdF ++
  queries "mix.cat." "pmf" rdCatMix rdN ++ [
  ("mix.gauss.entropy", do
    let _ ← Wire.next; let w ← rdL rdF; let g ← rdGauss
    pure (match entropyQuad w (g.map gaussQComp) with
      | none => "PANIC"
      | some h => wrF h)),
  ("mix.pois.entropy", do
    let _ ← Wire.next; let m ← rdPMix
    pure (match countMixEntropy m with
      | none => "PANIC"
      | some h => wrF h)),
  ("mix.bern.entropy", do
    let _ ← Wire.next; let m ← rdBMix
    pure (wrF (bernMixEntropy m))),
  ("mix.cat.entropy", do
    let _ ← Wire.next; let w ← rdL rdF; let g ← rdL GenDispatch.rd_Categorical
    let m : Mix Float Nat := ⟨w, g.map catComp⟩
    pure (match catMixEntropy m (g.head?.map (fun c => c.ln_weights.length)) with
      | none => "PANIC"
      | some h => wrF h)),
  ("mix.gauss.quad_bounds", do
    let _ ← Wire.next; let w ← rdL rdF; let g ← rdGauss
    pure (match quadBounds w (g.map gaussQComp) with
      | none => "PANIC"
      | some b => wrF b.1 ++ " " ++ wrF b.2)),
  ("mix.gauss.entropy_b", do
    let _ ← Wire.next; let w ← rdL rdF; let g ← rdGauss; let lo ← rdF; let hi ← rdF
    pure (match entropyQuadB w (g.map gaussQComp) (some (lo, hi)) with
      | none => "PANIC"
      | some h => wrF h)),
  ("mix.moments", do
    let _ ← Wire.next; let w ← rdL rdF; let ms ← rdL (rdO rdF); let vs ← rdL (rdO rdF)
    let m : Mix Float Unit := ⟨w, (ms.zip vs).map (fun p => momentComp p.1 p.2)⟩
    pure (wrO wrF (mean m) ++ " " ++ wrO wrF (variance m))),
  ("mix.new", do
    let _ ← Wire.next; let w ← rdL rdF; let k ← rdN
    pure (wrE wrMixK (new w (stdTags k)))),
  ("mix.uniform", do
    let _ ← Wire.next; let k ← rdN
    pure (wrE wrMixK (uniform (stdTags k)))),
  ("mix.set_weights", do
    let _ ← Wire.next; let w0 ← rdL rdF; let k ← rdN; let w1 ← rdL rdF
    let m : TMix := newUnchecked w0 (stdTags k)
    pure (match setWeights m w1 with
      | .ok m' => "U " ++ wrL wrF m'.weights
      | .error e => "E:" ++ e.variant ++ " " ++ wrL wrF m.weights)),
  ("mix.set_components", do
    let _ ← Wire.next; let w ← rdL rdF; let k ← rdN; let c ← rdTags
    let m : TMix := newUnchecked w (stdTags k)
    pure (match setComponents m c with
      | .ok m' => "U " ++ wrL wrF m'.weights ++ " " ++ wrTags m'.comps
      | .error e => "E:" ++ e.variant ++ " " ++ wrL wrF m.weights ++ " " ++ wrTags m.comps)),
  ("mix.combine", do
    let _ ← Wire.next; let ms ← rdL rdTMix
    let m := combine ms
    pure (wrL wrF m.weights ++ " " ++ wrTags m.comps)),
  ("mix.pairs_roundtrip", do
    let _ ← Wire.next
    let ps ← rdL (do let w ← rdF; let a ← rdF; let b ← rdF; pure (w, tagComp a b))
    pure (match tryFromPairs ps with
      | .ok m => wrL (fun (p : Float × Comp Float Unit) => wrF p.1 ++ " " ++ wrTag p.2) (toPairs m)
      | .error e => "E:" ++ e.variant)),
  ("mix.to_pairs", do
    let _ ← Wire.next; let m ← rdTMix
    pure (wrL (fun (p : Float × Comp Float Unit) => wrF p.1 ++ " " ++ wrTag p.2) (toPairs m))),
  ("mix.draw_index", do
    let _ ← Wire.next; let w ← rdL rdF; let word ← rdN
    let m : TMix := newUnchecked w []
    pure (wrIdx (drawIndex m (uniform01 word)))),
  ("mix.gauss.draw", do
    let _ ← Wire.next; let w ← rdL rdF; let g ← rdGauss; let word ← rdN
    let m : GMix := ⟨w, g.map gaussComp⟩
    pure (match drawIndex m (uniform01 word) with
      | none => "PANIC"
      | some i => match g[i]? with
        | none => "PANIC"
        | some c => wrF (c.mu + c.sigma * 0.0))),
  ("mix.gauss.ln_f_after_set_weights", do
    let _ ← Wire.next; let w0 ← rdL rdF; let g ← rdGauss; let w1 ← rdL rdF; let x ← rdF
    let m : GMix := ⟨w0, g.map gaussComp⟩
    pure (match setWeights m w1 with
      | .ok m' => "U " ++ wrF (lnF m' x) ++ " " ++ wrF (lnF m' x)
      | .error e => "E:" ++ e.variant ++ " " ++ wrF (lnF m x) ++ " " ++ wrF (lnF m x)))
]

end HandDispatchC11
