import RvModel.Hand.Dispatch
import RvModel.Spec.C01B
/- dispatch entries of the textbook log-densities of the continuous univariate distributions (C01, group B) -/
namespace HandDispatch
open GenDispatch Wire

def tableC01B : List (String × Rd String) := [
  ("spec.Gamma.ln_f_real", dx rd_Gamma Spec.Gamma.lnPdf),
  ("spec.Beta.ln_f_real", dx rd_Beta Spec.Beta.lnPdf),
  ("spec.Exponential.ln_f_real", dx rd_Exponential Spec.Exponential.lnPdf),
  ("spec.Cauchy.ln_f_real", dx rd_Cauchy Spec.Cauchy.lnPdf),
  ("spec.Laplace.ln_f_real", dx rd_Laplace Spec.Laplace.lnPdf),
  ("spec.LogNormal.ln_f_real", dx rd_LogNormal Spec.LogNormal.lnPdf),
  ("spec.InvGamma.ln_f_real", dx rd_InvGamma Spec.InvGamma.lnPdf),
  ("spec.ChiSquared.ln_f_real", dx rd_ChiSquared Spec.ChiSquared.lnPdf),
  ("spec.InvChiSquared.ln_f_real", dx rd_InvChiSquared Spec.InvChiSquared.lnPdf),
  ("spec.ScaledInvChiSquared.ln_f_real", dx rd_ScaledInvChiSquared Spec.ScaledInvChiSquared.lnPdf),
  ("spec.StudentsT.ln_f_real", dx rd_StudentsT Spec.StudentsT.lnPdf),
  ("spec.Kumaraswamy.ln_f_real", dx rd_Kumaraswamy Spec.Kumaraswamy.lnPdf),
  ("spec.UnitPowerLaw.ln_f_real", dx rd_UnitPowerLaw Spec.UnitPowerLaw.lnPdf),
  ("spec.Pareto.ln_f_real", dx rd_Pareto Spec.Pareto.lnPdf),
  ("spec.Uniform.ln_f_real", dx rd_Uniform Spec.Uniform.lnPdf),
  ("spec.Gev.ln_f_real", dx rd_Gev Spec.Gev.lnPdf),
  ("spec.InvGaussian.ln_f_real", dx rd_InvGaussian Spec.InvGaussian.lnPdf),
  ("spec.VonMises.ln_f_real", dx rd_VonMises Spec.VonMises.lnPdf)
]

end HandDispatch
