import RvModel.Gen.Defs
/-!
  Hand.C08Extra — entropy of the Poisson law as coded (dist/poisson.rs:305-322, misc/entropy.rs:3-36), which the
  translator cannot produce (generic helper over `Rv<u32>`).  Mathlib-free, generic in the carrier.

  * rate < 200: enumeration of −Σ f ln f outwards from ⌊rate⌋ with the object's own `ln_f` until f < 1e-16
    (`count_entropy_range fx mid mid (mid+1)`), the two loops with fuel;
  * rate ≥ 200: the asymptotic series ½ ln(2πe λ) − 1/(12λ) − 1/(24λ²) − 19/(360λ³).
-/
namespace Hand.C08
open RealLike

/-- misc/entropy.rs:14-23: left loop, `left` from mid down to 0 (stops early once `left ≤ lower ∧ f < 1e-16`) -/
def leftLoop {α : Type} [RealLike α] (lnF : Nat → α) (lower : Nat) : Nat → Nat → α → α
  | 0, _, h => h
  | fuel + 1, left, h =>
    let l := lnF left
    let f := RealLike.exp l
    let h' := h - f * l
    if left == 0 || (left ≤ lower && RealLike.lt f (1e-16 : α)) then h'
    else leftLoop lnF lower fuel (left - 1) h'

/-- misc/entropy.rs:26-35: right loop, from mid+1 upwards until `right ≥ upper ∧ f < 1e-16` -/
def rightLoop {α : Type} [RealLike α] (lnF : Nat → α) (upper : Nat) : Nat → Nat → α → α
  | 0, _, h => h
  | fuel + 1, right, h =>
    let l := lnF right
    let f := RealLike.exp l
    let h' := h - f * l
    if right ≥ upper && RealLike.lt f (1e-16 : α) then h'
    else rightLoop lnF upper fuel (right + 1) h'

def countEntropy {α : Type} [RealLike α] (lnF : Nat → α) (mid : Nat) : α :=
  let h := leftLoop lnF mid (mid + 2) mid (0.0 : α)
  rightLoop lnF (mid + 1) 100000 (mid + 1) h

/-- dist/poisson.rs:314-320, the large-rate series -/
def poissonEntropyAsym {α : Type} [RealLike α] (rate lnRate : α) : α :=
  mulAdd (19.0 : α) (-(recip ((360.0 : α) * (rate * rate * rate))))
    (mulAdd (0.5 : α) ((RealLike.ln2PiE : α) + lnRate) (-(recip ((12.0 : α) * rate)))
      - recip ((24.0 : α) * rate * rate))

/-- dist/poisson.rs:305-322 -/
def poissonEntropy {α : Type} [RealLike α] (d : Gen.Poisson α) (floorRate : Nat) : α :=
  if RealLike.lt d.rate (200.0 : α) then
    countEntropy (fun k => Gen.Poisson.ln_f_nat d k) floorRate
  else poissonEntropyAsym d.rate (RealLike.ln d.rate)

end Hand.C08
