import RvModel.Wire
import RvModel.Hand.Draw
/- driver entries of the C04 hand models (Hand/Draw.lean) on Float; same op names, same argument order and same answer
   format as harness/src/manual_c04.rs:

     draw.<Dist>   <kind> <params…> L<m> word…      ->  <value> <supports T|F> <words consumed>  | PANIC | HANG
     sample.<Dist> <kind> <params…> <n> L<m> word…  ->  L<n> value… <words consumed>             | PANIC | HANG

   The generator words are mapped to variates by the exact maps `std01 / open01 / uniform01`; the script
   semantics (`wordAt`: repeat the last word for ever) is that of `wire.rs::Script`.  Rust `mul_add` is evaluated by
   `fmaF`, the correctly rounded binary64 fused multiply–add computed with exact integer arithmetic, so the answers are
   expected to agree with the implementation BIT FOR BIT.  `HANG` = the model's fuel (`fuelC04` loop iterations) ran out. -/
namespace HandDispatch
open Wire Hand

/-! ### correctly rounded fused multiply–add on `Float` -/

/-- `|x| = m · 2^e` for a finite `x` (sign, m, e) -/
def fdec (x : Float) : Bool × Nat × Int :=
  let b := x.toBits.toNat
  let s := (b >>> 63) == 1
  let ex := (b >>> 52) % 2048
  let fr := b % 2 ^ 52
  if ex == 0 then (s, fr, -1074) else (s, fr + 2 ^ 52, (ex : Int) - 1075)

/-- round-to-nearest-even of `m · 2^e` (`m > 0`) to binary64 (subnormals and overflow to `inf` included) -/
def roundNatF (m : Nat) (e : Int) : Float :=
  let L : Int := (Nat.log2 m : Int)
  let shift : Int := max (L - 52) (-1074 - e)
  if shift ≤ 0 then (Float.ofNat m).scaleB e
  else
    let sh := shift.toNat
    let q := m >>> sh
    let rem := m % 2 ^ sh
    let half := 2 ^ (sh - 1)
    let q' := if rem > half || (rem == half && q % 2 == 1) then q + 1 else q
    (Float.ofNat q').scaleB (e + shift)

/-- `a.mul_add(b, c)`: `a·b + c` with ONE rounding.  Non-finite arguments or a zero factor: the unfused expression
    (equal to the fused one there, up to the sign of a zero result). -/
def fmaF (a b c : Float) : Float :=
  if !(a.isFinite && b.isFinite && c.isFinite) || a == 0.0 || b == 0.0 then a * b + c
  else
    let (sa, ma, ea) := fdec a
    let (sb, mb, eb) := fdec b
    let (sc, mc, ec) := fdec c
    let eP := ea + eb
    let e := if mc == 0 then eP else min eP ec
    let tp : Int := ((ma * mb * 2 ^ (eP - e).toNat : Nat) : Int)
    let tp := if sa != sb then -tp else tp
    let tc : Int := if mc == 0 then 0 else ((mc * 2 ^ (ec - e).toNat : Nat) : Int)
    let tc := if sc then -tc else tc
    let t := tp + tc
    if t == 0 then (if (sa != sb) && sc then -0.0 else 0.0)
    else if t < 0 then -(roundNatF t.natAbs e) else roundNatF t.natAbs e

/-- the scale of `UniformFloat::new(low, high)` (rand-0.8.5 uniform.rs:841-851) in binary64:
    `scale = high - low; while scale * (1 - 2⁻⁵²) + low >= high { scale = from_bits(to_bits(scale) - 1) }`.
    The loop needs about `ulp(high) · 2⁵¹ / (high - low)` iterations (it is re-run by every `Uniform::draw` of rv and does
    not terminate in practice for a narrow interval far from 0); `none` = not finished after `uniformScaleCap` steps. -/
def uniformScaleCap : Nat := 3000000

def uniformScaleF? (low high : Float) : Option Float := Id.run do
  let maxRand : Float := 1.0 - 2.220446049250313e-16
  let mut scale := high - low
  for _ in [0:uniformScaleCap] do
    if scale * maxRand + low >= high then scale := Float.ofBits (scale.toBits - 1) else return some scale
  return none

/-! ### helpers -/

def fuelC04 : Nat := 100000

def wrOutcome {β : Type} (w : β → String) (sup : β → Bool) : Outcome β → String
  | .ok v c => w v ++ " " ++ wrB (sup v) ++ " " ++ wrN c
  | .panic => "PANIC"
  | .hang => "HANG"

def wrOutcomeL {β : Type} (w : β → String) : Outcome (List β) → String
  | .ok vs c => wrL w vs ++ " " ++ wrN c
  | .panic => "PANIC"
  | .hang => "HANG"

def kindSigned (k : String) : Bool := k.startsWith "i"

/-- value writer of a Booleable kind -/
def wrBoolKind (k : String) (b : Bool) : String := if k == "bool" then wrB b else wrN (boolToNat b)

def rdGev : Rd (Gen.Gev Float) := do
  let loc ← rdF; let scale ← rdF; let shape ← rdF; pure { loc := loc, scale := scale, shape := shape }

/-- `VonMises::new_unchecked(mu, k)`: the cached `i0_k` is not used by `draw` -/
def rdVonMises : Rd (Gen.VonMises Float) := do
  let mu ← rdF; let k ← rdF; pure { mu := mu, k := k, i0_k := 0.0 }

def tableC04 : List (String × Rd String) := [
  ("draw.Bernoulli", do
    let kind ← Wire.next; let p ← rdF; let ws ← rdL rdN
    let d : Gen.Bernoulli Float := { p := p }
    let b := bernoulliDraw d (open01 (wordAt ws 0))
    pure (wrBoolKind kind b ++ " T 1")),
  ("sample.Bernoulli", do
    let kind ← Wire.next; let p ← rdF; let n ← rdN; let ws ← rdL rdN
    let d : Gen.Bernoulli Float := { p := p }
    let bs := bernoulliSample d ((List.range n).map (fun i => open01 (wordAt ws i)))
    pure (wrL (wrBoolKind kind) bs ++ " " ++ wrN n)),
  ("draw.Laplace", do
    let _ ← Wire.next; let mu ← rdF; let b ← rdF; let ws ← rdL rdN
    let d : Gen.Laplace Float := { mu := mu, b := b }
    let x := laplaceDrawWith fmaF d (open01 (wordAt ws 0))
    pure (wrOutcome wrF (Gen.Laplace.supports_real d) (.ok x 1))),
  ("sample.Laplace", do  -- default `sample` of traits.rs:59-61: n calls of `draw`
    let _ ← Wire.next; let mu ← rdF; let b ← rdF; let n ← rdN; let ws ← rdL rdN
    let d : Gen.Laplace Float := { mu := mu, b := b }
    pure (wrL wrF ((List.range n).map (fun i => laplaceDrawWith fmaF d (open01 (wordAt ws i)))) ++ " " ++ wrN n)),
  ("draw.Gev", do
    let _ ← Wire.next; let d ← rdGev; let ws ← rdL rdN
    let x := gevDrawWith fmaF d (open01 (wordAt ws 0))
    pure (wrOutcome wrF (Gen.Gev.supports_real d) (.ok x 1))),
  ("sample.Gev", do
    let _ ← Wire.next; let d ← rdGev; let n ← rdN; let ws ← rdL rdN
    pure (wrL wrF ((List.range n).map (fun i => gevDrawWith fmaF d (open01 (wordAt ws i)))) ++ " " ++ wrN n)),
  ("draw.Kumaraswamy", do
    let _ ← Wire.next; let a ← rdF; let b ← rdF; let ws ← rdL rdN
    let d : Gen.Kumaraswamy Float := { a := a, b := b }
    let x := kumaraswamyDraw d (open01 (wordAt ws 0))
    pure (wrOutcome wrF (Gen.Kumaraswamy.supports_real d) (.ok x 1))),
  ("sample.Kumaraswamy", do
    let _ ← Wire.next; let a ← rdF; let b ← rdF; let n ← rdN; let ws ← rdL rdN
    let d : Gen.Kumaraswamy Float := { a := a, b := b }
    pure (wrL wrF ((List.range n).map (fun i => kumaraswamyDraw d (open01 (wordAt ws i)))) ++ " " ++ wrN n)),
  ("draw.UnitPowerLaw", do
    let _ ← Wire.next; let alpha ← rdF; let ws ← rdL rdN
    let d : Gen.UnitPowerLaw Float := { alpha := alpha }
    let x := unitPowerLawDraw d (open01 (wordAt ws 0))
    pure (wrOutcome wrF (Gen.UnitPowerLaw.supports_real d) (.ok x 1))),
  ("sample.UnitPowerLaw", do
    let _ ← Wire.next; let alpha ← rdF; let n ← rdN; let ws ← rdL rdN
    let d : Gen.UnitPowerLaw Float := { alpha := alpha }
    pure (wrL wrF (unitPowerLawSample d ((List.range n).map (fun i => open01 (wordAt ws i)))) ++ " " ++ wrN n)),
  ("draw.Geometric", do
    let kind ← Wire.next; let p ← rdF; let ws ← rdL rdN
    let d : Gen.Geometric Float := { p := p }
    pure (wrOutcome wrN (Gen.Geometric.supports_nat d) (geomDraw (kindBits kind) fuelC04 d ws))),
  ("sample.Geometric", do
    let kind ← Wire.next; let p ← rdF; let n ← rdN; let ws ← rdL rdN
    let d : Gen.Geometric Float := { p := p }
    pure (wrOutcomeL wrN (iterDraws (fun i =>
      match geomDraw (kindBits kind) fuelC04 d (ws.drop (min i (ws.length - 1))) with
      | .ok v _ => .ok v (i + 1)
      | .panic => .panic
      | .hang => .hang) n 0))),
  ("draw.DiscreteUniform", do
    let kind ← Wire.next; let a ← rdI; let b ← rdI; let ws ← rdL rdN
    let d : Gen.DiscreteUniform Float := { a := a, b := b }
    pure (wrOutcome wrI (fun x => decide (a ≤ x) && decide (x ≤ b))
      (discreteUniformDraw (kindBits kind) (kindSigned kind) fuelC04 d ws))),
  ("sample.DiscreteUniform", do
    let kind ← Wire.next; let a ← rdI; let b ← rdI; let n ← rdN; let ws ← rdL rdN
    let d : Gen.DiscreteUniform Float := { a := a, b := b }
    pure (wrOutcomeL wrI (discreteUniformSample (kindBits kind) (kindSigned kind) fuelC04 d n ws))),
  ("draw.Uniform", do
    let _ ← Wire.next; let a ← rdF; let b ← rdF; let ws ← rdL rdN
    let d : Gen.Uniform Float := { a := a, b := b }
    pure (match uniformScaleF? a b with
      | none => "HANG"
      | some sc =>
        match uniformDrawWith (fun _ _ => sc) d (uniform01 (wordAt ws 0)) with
        | some x => wrOutcome wrF (Gen.Uniform.supports_real d) (.ok x 1)
        | none => "PANIC")),
  ("draw.Categorical", do
    let kind ← Wire.next; let lnw ← rdL rdF; let ws ← rdL rdN
    let d : Gen.Categorical Float := { ln_weights := lnw }
    pure (match categoricalDraw d (open01 (wordAt ws 0)) with
      | some ix =>
        let v := wrapNat (kindBits kind) ix       -- `CategoricalDatum::from_usize` = `as` cast (data/mod.rs:59-70)
        wrN v ++ " " ++ wrB (decide (v < lnw.length)) ++ " 1"
      | none => "PANIC")),
  ("sample.Categorical", do
    let kind ← Wire.next; let lnw ← rdL rdF; let n ← rdN; let ws ← rdL rdN
    let d : Gen.Categorical Float := { ln_weights := lnw }
    pure (match categoricalSample d ((List.range n).map (fun i => open01 (wordAt ws i))) with
      | some ixs => wrL wrN (ixs.map (wrapNat (kindBits kind))) ++ " " ++ wrN n
      | none => "PANIC")),
  ("draw.MixtureLaplace", do
    let _ ← Wire.next; let w ← rdL rdF; let mus ← rdL rdF; let bs ← rdL rdF; let ws ← rdL rdN
    let comps : List (Gen.Laplace Float) := (mus.zip bs).map (fun (m, b) => { mu := m, b := b })
    pure (match mixtureLaplaceDrawWith fmaF w comps (wordAt ws 0) (wordAt ws 1) with
      | some x => wrF x ++ " " ++ wrB (comps.any (fun c => Gen.Laplace.supports_real c x)) ++ " 2"
      | none => "PANIC")),
  ("sample.MixtureLaplace", do
    let _ ← Wire.next; let w ← rdL rdF; let mus ← rdL rdF; let bs ← rdL rdF; let n ← rdN; let ws ← rdL rdN
    let comps : List (Gen.Laplace Float) := (mus.zip bs).map (fun (m, b) => { mu := m, b := b })
    pure (match mixtureLaplaceSampleWith fmaF w comps n ws with
      | some xs => wrL wrF xs ++ " " ++ wrN (2 * n)
      | none => "PANIC")),
  ("draw.InvGaussian", do
    let _ ← Wire.next; let mu ← rdF; let lam ← rdF; let v ← rdF; let kz ← rdN; let ws ← rdL rdN
    let d : Gen.InvGaussian Float := { mu := mu, lambda' := lam }
    let x := invGaussianDrawWith fmaF d v (std01 (wordAt ws kz))
    pure (wrOutcome wrF (Gen.InvGaussian.supports_real d) (.ok x (kz + 1)))),
  ("draw.VonMises", do
    let _ ← Wire.next; let d ← rdVonMises; let ws ← rdL rdN
    pure (wrOutcome wrF (Gen.VonMises.supports_real d) (vonMisesDrawWith fmaF fuelC04 d ws 0))),
  ("sample.VonMises", do
    let _ ← Wire.next; let d ← rdVonMises; let n ← rdN; let ws ← rdL rdN
    pure (wrOutcomeL wrF (iterDraws (vonMisesDrawWith fmaF fuelC04 d ws) n 0))),
  ("draw.Empirical", do
    let _ ← Wire.next; let xs ← rdL rdF; let ws ← rdL rdN
    -- `Empirical::new` sorts the data (empirical.rs:67-70)
    let sorted := (xs.toArray.qsort (fun a b => a < b)).toList
    pure (wrOutcome wrF (fun _ => true) (empiricalDraw fuelC04 sorted ws))),
  ("drawhist.UnitPowerLaw", do  -- construct(alpha1); draw(w0); set_alpha(alpha2); draw(w1); invcdf(0.5): the caches are inlined in the model
    let _ ← Wire.next; let a1 ← rdF; let a2 ← rdF; let ws ← rdL rdN
    let d1 : Gen.UnitPowerLaw Float := { alpha := a1 }
    let w0 := ws.headD 0
    let w1 := (ws.drop 1).headD w0
    match Gen.UnitPowerLaw.set_alpha d1 a2 with
    | .ok d2 =>
      pure (wrF (unitPowerLawDraw d1 (open01 w0)) ++ " " ++ wrF (unitPowerLawDraw d2 (open01 w1)) ++ " " ++
        wrF (Gen.UnitPowerLaw.invcdf_real d2 0.5))
    | .error _ => pure "PANIC"),
  ("fma", do
    let _ ← Wire.next; let a ← rdF; let b ← rdF; let c ← rdF
    pure (wrF (fmaF a b c)))
]

end HandDispatch
