import RvModel.Wire
import RvModel.Hand.Samplers
/- driver entries of the C13B hand models (Hand/Samplers.lean) on Float; same op names, same argument order as
   harness/src/manual_c13b.rs.  The generator words are mapped to variates by the exact maps `std01 / open01 / uniform01`.
   `none` (a Rust panic) is written `PANIC`. -/
namespace HandDispatch
open Wire

def wrIdx : Option Nat → String
  | none => "PANIC"
  | some i => wrN i

def wrIdxs : Option (List Nat) → String
  | none => "PANIC"
  | some l => wrL wrN l

/-- the variate of a one-word script; an empty script replays 0 (as `Script` does) -/
def firstWord (ws : List Nat) : Nat := ws.headD 0

def tableC13B : List (String × Rd String) := [
  ("pflip", do
    let _ ← Wire.next; let ws ← rdL rdF; let sum ← rdO rdF; let words ← rdL rdN
    pure (wrIdx (Hand.pflip ws sum (Hand.std01 (firstWord words))))),
  ("pflips", do
    let _ ← Wire.next; let ws ← rdL rdF; let words ← rdL rdN
    pure (wrIdxs (Hand.pflipsAll ws (words.map Hand.uniform01)))),
  ("ln_pflips", do
    let _ ← Wire.next; let ws ← rdL rdF; let normed ← rdB; let words ← rdL rdN
    pure (wrIdxs (Hand.lnPflipsAll ws normed (words.map Hand.open01)))),
  ("ln_pflip", do
    let _ ← Wire.next; let ws ← rdL rdF; let words ← rdL rdN
    pure (wrIdx (Hand.lnPflip ws (words.map Hand.open01)))),
  ("gumbel_pflip", do
    let _ ← Wire.next; let ws ← rdL rdF; let words ← rdL rdN
    pure (wrIdx (Hand.gumbelPflip ws (words.map Hand.open01)))),
  ("argmax", do
    let _ ← Wire.next; let xs ← rdL rdF
    pure (wrL wrN (Hand.argmax xs))),
  ("log_product", do
    let _ ← Wire.next; let xs ← rdL rdF
    pure (wrF (Hand.logProduct xs))),
  ("cumsum", do
    let _ ← Wire.next; let xs ← rdL rdF
    pure (wrL wrF (Gen.cumsum xs))),
  ("std01", do
    let _ ← Wire.next; let words ← rdL rdN
    pure (wrF (Hand.std01 (firstWord words)))),
  ("open01", do
    let _ ← Wire.next; let words ← rdL rdN
    pure (wrF (Hand.open01 (firstWord words)))),
  ("uniform01", do
    let _ ← Wire.next; let words ← rdL rdN
    pure (wrF (Hand.uniform01 (firstWord words))))
]

end HandDispatch
