import RvModel.Num
import RvModel.Prelude
/-!
  RvModel.Hand.Gp — hand model of `rv::process::gaussian::GaussianProcess` (`/repo/src/process/gaussian/mod.rs`),
  `GaussianProcessPrediction` (same file) and `NoiseModel` (`noise_model.rs`).  Mathlib-free, generic in `[RealLike α]`.

  Self-contained: the kernel interface is a minimal expression tree `Kern` (`const c | rbf ℓ | add | mul`, i.e. the
  `ConstantKernel`, `RBFKernel`, `AddKernel`, `ProductKernel` of `kernel/{constant_kernel,rbf,ops}.rs`); it does not
  depend on `Hand/Kernel.lean` (C16).  Matrices are lists of rows.  The linear algebra mirrors nalgebra-0.32.6
  (`linalg/cholesky.rs`, `linalg/solve.rs`): left-looking Cholesky reading the lower triangle only, forward
  substitution by columns (axpy), adjoint back substitution by dot products — same operations in the same order,
  except that nalgebra's `dot` accumulates in 8 lanes for long vectors and Rust's `mul_add` is fused.

  Every definition cites the Rust lines it mirrors.  What looks wrong is transcribed as it is (see `props/C17_notes.md`):
    * `sample_function` assembles the query matrix with `DMatrix::from_row_iterator` from an iterator that walks the
      query points one after the other → `assemble` (row `i` = query point `i`; repaired — it used the column-major
      `from_iterator` before);
    * `NoiseModel::Uniform(σ)` adds `σ²` to the diagonal, `NoiseModel::PerPoint(v)` adds `vᵢ` (not squared).
-/
namespace Hand.Gp
open RealLike

abbrev Mat (α : Type) := List (List α)

-- ---------------------------------------------------------------------------------------------------------------
-- layout: `DMatrix::from_row_iterator(n, m, it)`

section Layout
variable {β : Type}

/-- `DMatrix::from_row_iterator(n, m, it)` (nalgebra `Allocator::allocate_from_row_iterator`): the `k`-th element the
    iterator yields goes to entry `(k / m, k % m)`, i.e. entry `(i, j)` is element `i·m + j`; only the first `n·m`
    elements are taken.  Rows of the result are listed.  `d` = filler for a short iterator (nalgebra panics instead:
    see `assembleOk`). -/
def fromRowIterator (n m : Nat) (flat : List β) (d : β) : List (List β) :=
  (List.range n).map fun i => (List.range m).map fun j => flat.getD (i * m + j) d

/-- `mod.rs:152-160`: `n = indices.len()`, `m = indices.first().len()` (0 if empty),
    `DMatrix::from_row_iterator(n, m, indices.iter().flat_map(|i| i.iter().cloned()))` — one query point per ROW.
    (Before the repair "GP predictions assemble multi-dimensional query points row-wise" this was the column-major
    `from_iterator`, entry `(i, j)` = element `j·n + i`: scrambled points for `n, m ≥ 2`.) -/
def assemble (rows : List (List β)) (d : β) : List (List β) :=
  let n := rows.length
  let m := (rows.head?.map List.length).getD 0
  fromRowIterator n m rows.flatten d

/-- nalgebra asserts that the iterator yields at least `n·m` elements (otherwise: panic); surplus elements are ignored -/
def assembleOk (rows : List (List β)) : Bool :=
  rows.length * (rows.head?.map List.length).getD 0 ≤ rows.flatten.length

/-- what the caller means: row `i` of the query matrix is the `i`-th query point -/
def intended (rows : List (List β)) : List (List β) := rows

end Layout

-- ---------------------------------------------------------------------------------------------------------------
-- small dense linear algebra (nalgebra order of operations)

section LinAlg
variable {α : Type} [RealLike α]

def zero : α := (0.0 : α)

/-- sequential dot product from 0 -/
def dotL (xs ys : List α) : α := (List.zipWith (· * ·) xs ys).foldl (· + ·) (0.0 : α)

def col (M : Mat α) (j : Nat) : List α := M.map fun r => r.getD j (0.0 : α)

def transpose (ncols : Nat) (M : Mat α) : Mat α := (List.range ncols).map (col M)

def ncolsOf (M : Mat α) : Nat := (M.head?.map List.length).getD 0

/-- `A * v` -/
def matVec (A : Mat α) (v : List α) : List α := A.map fun r => dotL r v

/-- `A * B` (`B` has `p` columns) -/
def matMul (A B : Mat α) (p : Nat) : Mat α :=
  let bt := transpose p B
  A.map fun r => bt.map fun c => dotL r c

def matSub (A B : Mat α) : Mat α := List.zipWith (List.zipWith (· - ·)) A B

def identity (n : Nat) : Mat α :=
  (List.range n).map fun i => (List.range n).map fun j => if i = j then (1.0 : α) else (0.0 : α)

/-- `sqrt_denom` of `Cholesky::new_internal` (cholesky.rs:229-234): `None` if the pivot is zero or `try_sqrt` fails
    (`try_sqrt` of f64 is `Some` iff `x >= 0`; NaN fails) -/
def pivotOk (d : α) : Bool := !(feq d (0.0 : α)) && le (0.0 : α) d

/-- row `i` of the Cholesky factor from rows `0..i-1` (`prev`, row `j` truncated to its `j+1` leading entries) and
    row `i` of the matrix (only its `i+1` leading entries — the lower triangle — are read).
    cholesky.rs:218-227: `col_j[i] += (−L[j][k])·L[i][k]` for `k = 0..j-1` in this order, then `/= L[j][j]`. -/
def cholRow (prev : Mat α) (arow : List α) : Option (List α) :=
  let offd := (prev.zip arow).foldl (fun acc (p : List α × α) =>
      let s := (List.zipWith (fun ljk lik => (-ljk) * lik) p.1 acc).foldl (· + ·) p.2
      acc ++ [s / p.1.getLastD (1.0 : α)]) ([] : List α)
  let aii := arow.getD prev.length (0.0 : α)
  let d := (offd.map fun l => (-l) * l).foldl (· + ·) aii
  if pivotOk d then some (offd ++ [sqrt d]) else none

/-- `Cholesky::new(A)`: the lower factor as ragged rows (row `i` has `i+1` entries), or `none`
    (`GaussianProcessError::NotPositiveSemiDefinite`) -/
def cholesky (A : Mat α) : Option (Mat α) :=
  A.foldl (fun acc arow => match acc with
    | none => none
    | some prev => match cholRow prev arow with
      | none => none
      | some r => some (prev ++ [r])) (some [])

/-- ragged lower rows → full square matrix (`Cholesky::l()`) -/
def toFull (L : Mat α) : Mat α :=
  let n := L.length
  L.map fun r => r ++ List.replicate (n - r.length) (0.0 : α)

/-- diagonal of the factor (`l_dirty().diagonal()`) -/
def diagOfLower (L : Mat α) : List α := L.map fun r => r.getLastD (1.0 : α)

/-- `solve_lower_triangular_unchecked_mut` (solve.rs): `z_i = (b_i + Σ_{k<i} (−z_k)·L_ik) / L_ii`, `k` ascending -/
def forwardSolve (L : Mat α) (b : List α) : List α :=
  (L.zip b).foldl (fun z (p : List α × α) =>
      let s := (List.zipWith (fun zk lik => (-zk) * lik) z p.1).foldl (· + ·) p.2
      z ++ [s / p.1.getLastD (1.0 : α)]) ([] : List α)

/-- `ad_solve_lower_triangular_unchecked_mut`: `x_i = (z_i − L[i+1.., i]·x[i+1..]) / L_ii`, `i` descending -/
def backSolve (L : Mat α) (z : List α) : List α :=
  let n := L.length
  let cols := transpose n (toFull L)
  (enumL (cols.zip z)).foldr (fun (e : Nat × (List α × α)) xs =>
      let i := e.1
      let below := e.2.1.drop (i + 1)
      let lii := e.2.1.getD i (1.0 : α)
      ((e.2.2 - dotL below xs) / lii) :: xs) []

/-- `Cholesky::solve(b)` for a vector -/
def cholSolve (L : Mat α) (b : List α) : List α := backSolve L (forwardSolve L b)

/-- `Cholesky::solve(B)` for a matrix with `p` columns (column by column) -/
def cholSolveMat (L : Mat α) (B : Mat α) (p : Nat) : Mat α :=
  let cols := (List.range p).map fun j => cholSolve L (col B j)
  transpose L.length cols

/-- `Cholesky::inverse()` = `solve(identity)` -/
def cholInverse (L : Mat α) : Mat α := cholSolveMat L (identity L.length) L.length

end LinAlg

-- ---------------------------------------------------------------------------------------------------------------
-- minimal kernel interface

/-- kernel expression trees over `ConstantKernel`, `RBFKernel`, `AddKernel`, `ProductKernel` -/
inductive Kern (α : Type) where
  | const (c : α)
  | rbf (l : α)
  | add (a b : Kern α)
  | mul (a b : Kern α)

inductive KErr where
  | missing (n : Nat)
  | extraneous (n : Nat)
  | outOfBounds
  | panic
  deriving DecidableEq, Repr

section Kernel
variable {α : Type} [RealLike α]

/-- `misc.rs:46-65` `e2_norm(x, y, scale)` = `Σ ((xₖ − yₖ)/scale)²`, left to right from 0 -/
def e2norm (x y : List α) (scale : α) : α :=
  (List.zipWith (fun a b => (a - b) / scale) x y).foldl (fun acc d => acc + d * d) (0.0 : α)

/-- one entry of `covariance(x1, x2)`: constant_kernel.rs:70, rbf.rs:77-84, ops.rs:87-90, ops.rs:215-217 -/
def Kern.cov : Kern α → List α → List α → α
  | .const c, _, _ => c
  | .rbf l, x, y => exp ((-(0.5 : α)) * e2norm x y l)
  | .add a b, x, y => a.cov x y + b.cov x y
  | .mul a b, x, y => a.cov x y * b.cov x y

/-- one entry of `diag(x)`: constant_kernel.rs:83, rbf.rs:97, ops.rs:99-101, ops.rs:230-233 -/
def Kern.diagE : Kern α → α
  | .const c => c
  | .rbf _ => (1.0 : α)
  | .add a b => a.diagE + b.diagE
  | .mul a b => a.diagE * b.diagE

/-- does `covariance` look at the coordinates (the RBF leaf panics on a column-count mismatch: `zip_fold` asserts) -/
def Kern.readsPoints : Kern α → Bool
  | .const _ => false
  | .rbf _ => true
  | .add a b => a.readsPoints || b.readsPoints
  | .mul a b => a.readsPoints || b.readsPoints

/-- `kernel.covariance(X1, X2)` as a matrix (rows of `X1` × rows of `X2`) -/
def covMat (k : Kern α) (X1 X2 : Mat α) : Mat α := X1.map fun x => X2.map fun y => k.cov x y

def diagVec (k : Kern α) (X : Mat α) : List α := X.map fun _ => k.diagE

def Kern.nParameters : Kern α → Nat
  | .const _ => 1
  | .rbf _ => 1
  | .add a b => a.nParameters + b.nParameters
  | .mul a b => a.nParameters + b.nParameters

/-- `parameters()`: log-scale, left to right (constant_kernel.rs:86-88, rbf.rs:100-102, ops.rs:104-112, 236-243) -/
def Kern.parameters : Kern α → List α
  | .const c => [ln c]
  | .rbf l => [ln l]
  | .add a b => a.parameters ++ b.parameters
  | .mul a b => a.parameters ++ b.parameters

/-- leaf constructor `new(value)`: `value <= 0.0` ⇒ `ParameterOutOfBounds` (NaN passes) -/
def leafNew (mk : α → Kern α) (v : α) : Except KErr (Kern α) :=
  if le v (0.0 : α) then .error .outOfBounds else .ok (mk v)

/-- `reparameterize(params)`: constant_kernel.rs:90-96, rbf.rs:104-110, ops.rs:114-121 / 245-252
    (`params.split_at(n_a)` panics when `params.len() < n_a`) -/
def Kern.reparameterize : Kern α → List α → Except KErr (Kern α)
  | .const _, ps => match ps with
    | [] => .error (.missing 1)
    | [v] => leafNew .const (exp v)
    | _ => .error (.extraneous (ps.length - 1))
  | .rbf _, ps => match ps with
    | [] => .error (.missing 1)
    | [v] => leafNew .rbf (exp v)
    | _ => .error (.extraneous (ps.length - 1))
  | .add a b, ps =>
    if ps.length < a.nParameters then .error .panic else do
      let a' ← a.reparameterize (ps.take a.nParameters)
      let b' ← b.reparameterize (ps.drop a.nParameters)
      pure (.add a' b')
  | .mul a b, ps =>
    if ps.length < a.nParameters then .error .panic else do
      let a' ← a.reparameterize (ps.take a.nParameters)
      let b' ← b.reparameterize (ps.drop a.nParameters)
      pure (.mul a' b')

/-- the default method `Kernel::consume_parameters` (kernel/mod.rs:77-93): takes the `n` leading parameters,
    `MissingParameters(n − i)` when the iterator ends after `i` of them, returns the rest untouched -/
def Kern.consumeParameters (k : Kern α) (ps : List α) : Except KErr (Kern α × List α) :=
  let n := k.nParameters
  if ps.length < n then .error (.missing (n - ps.length)) else do
    let k' ← k.reparameterize (ps.take n)
    pure (k', ps.drop n)

/-- `covariance_with_gradient(X)`: covariance matrix and one `n×n` slice per parameter.
    rbf.rs:121-144 (`for i { for j in 0..i {…}; dm[(i,i)] = 1 }`, gradient `d2·cov`, 0 on the diagonal; the entry
    above the diagonal is a copy of the one below), constant_kernel.rs:107-113, ops.rs:132-138, ops.rs:263-271 -/
def covGrad : Kern α → Mat α → Mat α × List (Mat α)
  | .const c, X =>
    let m : Mat α := X.map fun _ => X.map fun _ => c
    (m, [m])
  | .rbf l, X =>
    let ix := enumL X
    let d2 (i j : Nat) (xi xj : List α) : α := if j < i then e2norm xi xj l else e2norm xj xi l
    let cv : Mat α := ix.map fun p => ix.map fun q =>
      if p.1 = q.1 then (1.0 : α) else exp (-(d2 p.1 q.1 p.2 q.2) / (2.0 : α))
    let g : Mat α := ix.map fun p => ix.map fun q =>
      if p.1 = q.1 then (0.0 : α) else
        let d := d2 p.1 q.1 p.2 q.2
        d * exp (-d / (2.0 : α))
    (cv, [g])
  | .add a b, X =>
    let (ca, ga) := covGrad a X
    let (cb, gb) := covGrad b X
    (List.zipWith (List.zipWith (· + ·)) ca cb, ga ++ gb)
  | .mul a b, X =>
    let (ca, ga) := covGrad a X
    let (cb, gb) := covGrad b X
    let cm (s o : Mat α) : Mat α := List.zipWith (List.zipWith (· * ·)) s o
    (cm ca cb, ga.map (cm · cb) ++ gb.map (cm · ca))

end Kernel

-- ---------------------------------------------------------------------------------------------------------------
-- noise model

/-- `noise_model.rs:10-15` -/
inductive Noise (α : Type) where
  | uniform (sigma : α)
  | perPoint (v : List α)

inductive GpErr where
  | notPSD                    -- `NotPositiveSemiDefinite`
  | misshapen                 -- `MisshapenNoiseModel`
  | kernel (e : KErr)         -- `KernelError(e)`
  | panic
  deriving DecidableEq, Repr

section Gp
variable {α : Type} [RealLike α]

/-- what `add_noise_to_kernel` adds to the diagonal (noise_model.rs:29-41):
    `Uniform(noise)` ↦ `noise.powi(2)` everywhere; `PerPoint(sigma)` ↦ `sigma[i]` — NOT squared -/
def noiseDiag (nm : Noise α) (n : Nat) : Except GpErr (List α) :=
  match nm with
  | .uniform s => .ok (List.replicate n (powi s 2))
  | .perPoint v => if n = v.length then .ok v else .error .misshapen

/-- `cov + &DMatrix::from_diagonal(&diag)`: entry `(i, j)` is `cov[(i,j)] + (if i = j then diag[i] else 0.0)` -/
def addDiag (K : Mat α) (d : List α) : Mat α :=
  (List.range K.length).map fun i => (List.range (K.getD i []).length).map fun j =>
    (K.getD i []).getD j (0.0 : α) + (if i = j then d.getD i (0.0 : α) else (0.0 : α))

/-- `NoiseModel::add_noise_to_kernel` -/
def addNoise (nm : Noise α) (K : Mat α) : Except GpErr (Mat α) := do
  let d ← noiseDiag nm K.length
  pure (addDiag K d)

/-- `GaussianProcess<K>` (mod.rs:66-84); `chol` = ragged lower factor -/
structure Gp (α : Type) where
  kernel : Kern α
  xTrain : Mat α
  yTrain : List α
  noise : Noise α
  chol : Mat α
  alpha : List α
  kInv : Mat α

/-- `GaussianProcess::train` (mod.rs:97-125).  `k_chol.solve(&y_train)` panics when `y_train` has not `n` rows. -/
def train (k : Kern α) (X : Mat α) (y : List α) (nm : Noise α) : Except GpErr (Gp α) := do
  let K ← addNoise nm (covMat k X X)                                       -- :103-105
  match cholesky K with                                                    -- :108-111
  | none => .error .notPSD
  | some L =>
    if y.length ≠ X.length then .error .panic else
    pure { kernel := k, xTrain := X, yTrain := y, noise := nm, chol := L,
           kInv := cholInverse L,                                          -- :113
           alpha := cholSolve L y }                                        -- :114

/-- the evidence formula shared by `ln_m` (mod.rs:173-182) and `ln_m_with_params` (:212-219):
    `n.mul_add(−HALF_LN_2PI, (−0.5).mul_add(y·α, −Σ ln Lᵢᵢ))` -/
def lnMOf (L : Mat α) (y : List α) : α :=
  let dlogSum := sumL ((diagOfLower L).map ln)
  let n : α := ofNatR L.length
  let alpha := cholSolve L y
  mulAdd n (-(halfLn2Pi : α)) (mulAdd (-(0.5 : α)) (dotL y alpha) (-dlogSum))

/-- `RandomProcess::ln_m` (mod.rs:173-182) -/
def lnM (gp : Gp α) : α := lnMOf gp.chol gp.yTrain

/-- `outer_product_self(col)` (mod.rs:24-27) -/
def outerSelf (v : List α) : Mat α := v.map fun a => v.map fun b => a * b

/-- the gradient loop (mod.rs:223-232): `0.5 · Σ_j (A.row(j) * G.column(j))[0]` -/
def gradLoop (A G : Mat α) : α :=
  (0.5 : α) * (enumL A).foldl (fun sum (e : Nat × List α) => sum + dotL e.2 (col G e.1)) (0.0 : α)

/-- `RandomProcess::ln_m_with_params` (mod.rs:184-236) -/
def lnMWithParams (gp : Gp α) (theta : List α) : Except GpErr (α × List α) := do
  let kernel ← (gp.kernel.reparameterize theta).mapError GpErr.kernel     -- :188-191
  let (k0, kGrad) := covGrad kernel gp.xTrain                              -- :194-196
  let K ← addNoise gp.noise k0                                             -- :197 (`unwrap`)
  match cholesky K with                                                    -- :201-211
  | none => .error .notPSD
  | some L =>
    let alpha := cholSolve L gp.yTrain                                     -- :212
    let lnm := lnMOf L gp.yTrain                                           -- :213-219
    let aatKinv := matSub (outerSelf alpha) (cholInverse L)                -- :222
    let grad := (List.range theta.length).map fun i =>                     -- :223-232
      match kGrad[i]? with
      | some G => gradLoop aatKinv G
      | none => nan
    pure (lnm, grad)

/-- `RandomProcess::parameters` (mod.rs:238-241) -/
def parameters (gp : Gp α) : List α := gp.kernel.parameters

/-- `RandomProcess::set_parameters` (mod.rs:243-259) -/
def setParameters (gp : Gp α) (ps : List α) : Except GpErr (Gp α) := do
  let (kernel, leftovers) ← (gp.kernel.consumeParameters ps).mapError GpErr.kernel   -- :247-250
  if !leftovers.isEmpty then .error (.kernel (.extraneous leftovers.length)) else    -- :251-256
  train kernel gp.xTrain gp.yTrain gp.noise                                           -- :258

/-- `GaussianProcessPrediction<K>` (mod.rs:285-301) without the lazily computed cells -/
structure Pred (α : Type) where
  gp : Gp α
  yMean : List α
  kTrans : Mat α
  xs : Mat α

/-- `RandomProcess::sample_function` (mod.rs:151-171).  `layout` chooses between the code's assembly (`assemble`)
    and the intended one (`intended`), so that the two can be compared on the same inputs. -/
def sampleFunctionWith (layout : Mat α → Mat α) (gp : Gp α) (indices : Mat α) : Except GpErr (Pred α) :=
  if !assembleOk indices then .error .panic else                           -- nalgebra: iterator shorter than n·m
  let xs := layout indices                                                 -- :155-160
  let m := (indices.head?.map List.length).getD 0
  if gp.kernel.readsPoints && !indices.isEmpty && !gp.xTrain.isEmpty && m ≠ ncolsOf gp.xTrain then .error .panic else
  let kTrans := covMat gp.kernel xs gp.xTrain                              -- :161
  .ok { gp := gp, yMean := matVec kTrans gp.alpha, kTrans := kTrans, xs := xs }   -- :162

def sampleFunction (gp : Gp α) (indices : Mat α) : Except GpErr (Pred α) :=
  sampleFunctionWith (fun r => assemble r (0.0 : α)) gp indices

/-- `Mean::mean` (mod.rs:376-378) -/
def Pred.mean (p : Pred α) : List α := p.yMean

/-- `GaussianProcessPrediction::cov` (mod.rs:308-314): `K(xs,xs) − k_trans · chol.solve(k_transᵀ)` -/
def Pred.cov (p : Pred α) : Mat α :=
  let nq := p.kTrans.length
  let nt := p.gp.chol.length
  let v := cholSolveMat p.gp.chol (transpose nt p.kTrans) nq               -- :310
  matSub (covMat p.gp.kernel p.xs p.xs) (matMul p.kTrans v nq)             -- :312

/-- `Variance::variance` (mod.rs:385-397): `diag(xs)[i] − Σ_j (k_trans·K⁻¹)[i,j] · k_trans[i,j]` -/
def Pred.variance (p : Pred α) : List α :=
  let nt := p.gp.kInv.length
  let kTi := matMul p.kTrans p.gp.kInv nt                                  -- :388
  List.zipWith (fun dv (rr : List α × List α) =>
      dv - (List.zipWith (· * ·) rr.1 rr.2).foldl (· + ·) (0.0 : α))       -- :392-394
    (diagVec p.gp.kernel p.xs) (kTi.zip p.kTrans)

/-- `GaussianProcessPrediction::std` (mod.rs:317-329) -/
def Pred.std (p : Pred α) : List α := p.variance.map sqrt

end Gp

end Hand.Gp
