import RvModel.Hand.Dispatch
import RvModel.Spec.C03
import RvModel.Hand.KsDist
/- dispatch entries of the textbook CDFs / survival functions (C03) -/
namespace HandDispatch
open GenDispatch Wire

def tableC03 : List (String × Rd String) := [
  -- hand model of KsTwoAsymptotic::compute (dist/ks.rs): cdf and pdf; same op name in harness/src/manual.rs
  ("hand.KsTwoAsymptotic.cdf_pdf", do let _ ← Wire.next; let x ← rdF; let r := Hand.KsDist.compute x; pure (wrF r.1 ++ " " ++ wrF r.2)),
  ("spec.Exponential.cdf_real", dx rd_Exponential Spec.Exponential.cdf),
  ("spec.Uniform.cdf_real", dx rd_Uniform Spec.Uniform.cdf),
  ("spec.Cauchy.cdf_real", dx rd_Cauchy Spec.Cauchy.cdf),
  ("spec.Laplace.cdf_real", dx rd_Laplace Spec.Laplace.cdf),
  ("spec.Kumaraswamy.cdf_real", dx rd_Kumaraswamy Spec.Kumaraswamy.cdf),
  ("spec.UnitPowerLaw.cdf_real", dx rd_UnitPowerLaw Spec.UnitPowerLaw.cdf),
  ("spec.Pareto.cdf_real", dx rd_Pareto Spec.Pareto.cdf),
  ("spec.Gev.cdf_real", dx rd_Gev Spec.Gev.cdf),
  ("spec.Gamma.cdf_real", dx rd_Gamma Spec.Gamma.cdf),
  ("spec.ChiSquared.cdf_real", dx rd_ChiSquared Spec.ChiSquared.cdf),
  ("spec.InvGamma.cdf_real", dx rd_InvGamma Spec.InvGamma.cdf),
  ("spec.InvChiSquared.cdf_real", dx rd_InvChiSquared Spec.InvChiSquared.cdf),
  ("spec.ScaledInvChiSquared.cdf_real", dx rd_ScaledInvChiSquared Spec.ScaledInvChiSquared.cdf),
  ("spec.Beta.cdf_real", dx rd_Beta Spec.Beta.cdf),
  ("spec.Gaussian.cdf_real", dx rd_Gaussian Spec.Gaussian.cdf),
  ("spec.LogNormal.cdf_real", dx rd_LogNormal Spec.LogNormal.cdf),
  ("spec.DiscreteUniform.cdf_real", dx rd_DiscreteUniform Spec.DiscreteUniform.cdf03),
  ("spec.Bernoulli.cdf_bool", db rd_Bernoulli Spec.Bernoulli.cdf),
  ("spec.Bernoulli.cdf_nat", dn rd_Bernoulli Spec.Bernoulli.cdfNat),
  ("spec.Geometric.cdf_nat", dn rd_Geometric Spec.Geometric.cdf),
  ("spec.Binomial.cdf_nat", dn rd_Binomial Spec.Binomial.cdf),
  ("spec.Binomial.cdf_int", di rd_Binomial Spec.Binomial.cdfInt),
  ("spec.BetaBinomial.cdf_nat", dn rd_BetaBinomial Spec.BetaBinomial.cdf),
  ("spec.BetaBinomial.cdf_int", di rd_BetaBinomial Spec.BetaBinomial.cdfInt),
  ("spec.Categorical.cdf_nat", dn rd_Categorical Spec.Categorical.cdf),
  ("spec.Categorical.cdf_bool", db rd_Categorical Spec.Categorical.cdfBool),
  ("spec.Poisson.cdf_nat", dn rd_Poisson Spec.Poisson.cdf),
  ("spec.NegBinomial.cdf_nat", dn rd_NegBinomial Spec.NegBinomial.cdf),
  -- survival functions: the complement of the textbook cdf
  ("spec.Exponential.sf_real", dx rd_Exponential (fun d x => Spec.sf (Spec.Exponential.cdf d x))),
  ("spec.Uniform.sf_real", dx rd_Uniform (fun d x => Spec.sf (Spec.Uniform.cdf d x))),
  ("spec.Cauchy.sf_real", dx rd_Cauchy (fun d x => Spec.sf (Spec.Cauchy.cdf d x))),
  ("spec.Laplace.sf_real", dx rd_Laplace (fun d x => Spec.sf (Spec.Laplace.cdf d x))),
  ("spec.Kumaraswamy.sf_real", dx rd_Kumaraswamy (fun d x => Spec.sf (Spec.Kumaraswamy.cdf d x))),
  ("spec.UnitPowerLaw.sf_real", dx rd_UnitPowerLaw (fun d x => Spec.sf (Spec.UnitPowerLaw.cdf d x))),
  ("spec.Pareto.sf_real", dx rd_Pareto (fun d x => Spec.sf (Spec.Pareto.cdf d x))),
  ("spec.Gev.sf_real", dx rd_Gev (fun d x => Spec.sf (Spec.Gev.cdf d x))),
  ("spec.Gamma.sf_real", dx rd_Gamma (fun d x => Spec.sf (Spec.Gamma.cdf d x))),
  ("spec.ChiSquared.sf_real", dx rd_ChiSquared (fun d x => Spec.sf (Spec.ChiSquared.cdf d x))),
  ("spec.InvGamma.sf_real", dx rd_InvGamma (fun d x => Spec.sf (Spec.InvGamma.cdf d x))),
  ("spec.InvChiSquared.sf_real", dx rd_InvChiSquared (fun d x => Spec.sf (Spec.InvChiSquared.cdf d x))),
  ("spec.ScaledInvChiSquared.sf_real", dx rd_ScaledInvChiSquared (fun d x => Spec.sf (Spec.ScaledInvChiSquared.cdf d x))),
  ("spec.Beta.sf_real", dx rd_Beta (fun d x => Spec.sf (Spec.Beta.cdf d x))),
  ("spec.Gaussian.sf_real", dx rd_Gaussian (fun d x => Spec.sf (Spec.Gaussian.cdf d x))),
  ("spec.LogNormal.sf_real", dx rd_LogNormal (fun d x => Spec.sf (Spec.LogNormal.cdf d x))),
  ("spec.Bernoulli.sf_bool", db rd_Bernoulli (fun d x => Spec.sf (Spec.Bernoulli.cdf d x))),
  ("spec.Geometric.sf_nat", dn rd_Geometric (fun d x => Spec.sf (Spec.Geometric.cdf d x))),
  ("spec.Binomial.sf_nat", dn rd_Binomial (fun d x => Spec.sf (Spec.Binomial.cdf d x))),
  ("spec.BetaBinomial.sf_nat", dn rd_BetaBinomial (fun d x => Spec.sf (Spec.BetaBinomial.cdf d x))),
  ("spec.Categorical.sf_nat", dn rd_Categorical (fun d x => Spec.sf (Spec.Categorical.cdf d x))),
  ("spec.Poisson.sf_nat", dn rd_Poisson (fun d x => Spec.sf (Spec.Poisson.cdf d x))),
  ("spec.NegBinomial.sf_nat", dn rd_NegBinomial (fun d x => Spec.sf (Spec.NegBinomial.cdf d x)))
]

end HandDispatch
