import RvModel.Wire
import RvModel.FloatInst
import RvModel.Hand.Gp
/-
  Driver entries of property C17 (Float carrier): the hand model `Hand/Gp.lean` of `GaussianProcess`.
  The SAME lines are understood by the harness (`harness/src/manual_c17.rs`), which runs the real code.

  kernel tree (prefix tokens):   const <c> | rbf <ℓ> | add <tree> <tree> | mul <tree> <tree>
  noise model:                   uniform <σ> | perpoint L<k> <v…>
  point set  X / Xq:             <n> <d> <n·d coordinates, row-major>      (Xq: every row is one `DVector` index)
  targets    y:                  L<n> <y…>
  GP  ::=  <tree> <noise> <X> <y>

    gp.train <kind> GP                      ↦  L<n·n> chol.l() row-major  L<n> alpha  L<n·n> k_inv      | E:… | PANIC
    gp.ln_m <kind> GP                       ↦  ln_m()                                                   | E:… | PANIC
    gp.ln_m_with_params <kind> GP L<p> θ    ↦  ln_m  L<p> gradient                                      | E:… | PANIC
    gp.ln_m_at <kind> GP L<p> θ             ↦  set_parameters(θ)?.ln_m()                                | E:… | PANIC
    gp.ln_m_fd <kind> GP L<p> θ <h>         ↦  L<p> central differences of ln_m_at in θᵢ (step h)       | E:… | PANIC
    gp.set_parameters <kind> GP L<p> θ      ↦  L<q> parameters() of the new process                     | E:… | PANIC
    gp.state <kind> GP <Xq>                 ↦  STATE = L<p> parameters()  ln_m()  L<n> alpha (private, via serde)  L<nq> mean  L<nq²> cov  L<nq> variance
    gp.set_vs_fresh <kind> GP L<p> θ <Xq>   ↦  STATE of set_parameters(θ)  then  STATE of train(kernel.reparameterize(θ), X, y, noise)
                                               | <error of set_parameters> then STATE of the original process
    gp.predict_mean <kind> GP <Xq>          ↦  L<nq> sample_function(Xq).mean()                         | PANIC
    gp.predict_cov <kind> GP <Xq>           ↦  L<nq·nq> …cov() row-major                                | PANIC
    gp.predict_var <kind> GP <Xq>           ↦  L<nq> …variance()                                        | PANIC
    gp.predict_std <kind> GP <Xq>           ↦  L<nq> …std()                                             | PANIC
    gp.predict_ln_f_mean <kind> GP <Xq>     ↦  …dist().ln_f(mean)   (`MvGaussian` factorises cov lazily and unwraps)   | PANIC
    gp.params_roundtrip <kind> GP <Xq>      ↦  <B> ln_m  ln_m'  L<nq> mean  L<nq> mean'    (' = after set_parameters(parameters()),
                                               B = T iff ln_m, mean, parameters are bit-identical before/after)
    gp.query_layout <kind> <n> <m> <n·m values: the n query points one after the other>
                                            ↦  L<n·m> the matrix handed to `kernel.covariance`, row-major
    gp.add_noise <kind> <noise> <n> L<n·n> K row-major   ↦  L<n·n> add_noise_to_kernel(K) row-major     | E:MisshapenNoiseModel
-/
namespace HandDispatchC17
open Wire Hand.Gp

def rdTree : Nat → Rd (Kern Float)
  | 0 => throw "tree too deep"
  | fuel + 1 => do
    let t ← Wire.next
    if t == "const" then do let c ← rdF; pure (.const c)
    else if t == "rbf" then do let l ← rdF; pure (.rbf l)
    else if t == "add" then do let a ← rdTree fuel; let b ← rdTree fuel; pure (.add a b)
    else if t == "mul" then do let a ← rdTree fuel; let b ← rdTree fuel; pure (.mul a b)
    else throw s!"bad kernel token {t}"

def rdNoise : Rd (Noise Float) := do
  let t ← Wire.next
  if t == "uniform" then do let s ← rdF; pure (.uniform s)
  else if t == "perpoint" then do let v ← rdL rdF; pure (.perPoint v)
  else throw s!"bad noise token {t}"

/-- `<n> <d> <row-major coordinates>` -/
def rdPts : Rd (List (List Float)) := do
  let n ← rdN; let d ← rdN
  rdRep (rdRep rdF d) n

def wrKErr : KErr → String
  | .missing n => s!"E:MissingParameters {n}"
  | .extraneous n => s!"E:ExtraneousParameters {n}"
  | .outOfBounds => "E:ParameterOutOfBounds"
  | .panic => "PANIC"

def wrGpErr : GpErr → String
  | .notPSD => "E:NotPositiveSemiDefinite"
  | .misshapen => "E:MisshapenNoiseModel"
  | .kernel e => wrKErr e
  | .panic => "PANIC"

def wrMat (m : List (List Float)) : String := wrL wrF m.flatten

def rdGp : Rd (Except GpErr (Gp Float)) := do
  let k ← rdTree 64; let nm ← rdNoise; let X ← rdPts; let y ← rdL rdF
  pure (train k X y nm)

def withGp (f : Gp Float → Rd String) : Rd String := do
  let _ ← Wire.next
  match (← rdGp) with
  | .ok gp => f gp
  | .error e => pure (wrGpErr e)

def withPred (f : Pred Float → String) : Rd String :=
  withGp fun gp => do
    let Xq ← rdPts
    match sampleFunction gp Xq with
    | .ok p => pure (f p)
    | .error e => pure (wrGpErr e)

def lnMAt (gp : Gp Float) (th : List Float) : Except GpErr Float := do
  let g ← setParameters gp th
  pure (lnM g)

def bitsEq (a b : Float) : Bool := a.toBits == b.toBits

def stateBlock (gp : Gp Float) (Xq : List (List Float)) : String :=
  match sampleFunction gp Xq with
  | .ok p => wrL wrF (parameters gp) ++ " " ++ wrF (lnM gp) ++ " " ++ wrL wrF gp.alpha ++ " " ++ wrL wrF p.mean ++ " "
      ++ wrMat p.cov ++ " " ++ wrL wrF p.variance
  | .error e => wrGpErr e

def tableC17 : List (String × Rd String) := [
  ("gp.state", withGp fun gp => do
    let Xq ← rdPts
    pure (stateBlock gp Xq)),
  ("gp.set_vs_fresh", withGp fun gp => do
    let th ← rdL rdF
    let Xq ← rdPts
    match setParameters gp th with
    | .error e => pure (wrGpErr e ++ " " ++ stateBlock gp Xq)
    | .ok ga =>
      match gp.kernel.reparameterize th with
      | .error e => pure (wrKErr e)
      | .ok kb =>
        match train kb gp.xTrain gp.yTrain gp.noise with
        | .error e => pure (wrGpErr e)
        | .ok gb => pure (stateBlock ga Xq ++ " " ++ stateBlock gb Xq)),
  ("gp.train", withGp fun gp =>
    pure (wrMat (toFull gp.chol) ++ " " ++ wrL wrF gp.alpha ++ " " ++ wrMat gp.kInv)),
  ("gp.ln_m", withGp fun gp => pure (wrF (lnM gp))),
  ("gp.ln_m_with_params", withGp fun gp => do
    let th ← rdL rdF
    match lnMWithParams gp th with
    | .ok (v, g) => pure (wrF v ++ " " ++ wrL wrF g)
    | .error e => pure (wrGpErr e)),
  ("gp.ln_m_at", withGp fun gp => do
    let th ← rdL rdF
    match lnMAt gp th with
    | .ok v => pure (wrF v)
    | .error e => pure (wrGpErr e)),
  ("gp.ln_m_fd", withGp fun gp => do
    let th ← rdL rdF
    let h ← rdF
    let one (i : Nat) : Except GpErr Float := do
      let up ← lnMAt gp (th.mapIdx fun j t => if j = i then t + h else t)
      let dn ← lnMAt gp (th.mapIdx fun j t => if j = i then t - h else t)
      pure ((up - dn) / (2.0 * h))
    match (List.range th.length).mapM one with
    | .ok g => pure (wrL wrF g)
    | .error e => pure (wrGpErr e)),
  ("gp.set_parameters", withGp fun gp => do
    let th ← rdL rdF
    match setParameters gp th with
    | .ok g => pure (wrL wrF (parameters g))
    | .error e => pure (wrGpErr e)),
  ("gp.predict_mean", withPred fun p => wrL wrF p.mean),
  ("gp.predict_cov", withPred fun p => wrMat p.cov),
  ("gp.predict_var", withPred fun p => wrL wrF p.variance),
  ("gp.predict_std", withPred fun p => wrL wrF p.std),
  ("gp.predict_ln_f_mean", withPred fun p =>
    match cholesky p.cov with
    | none => "PANIC"
    | some L =>
      let detSqrt := (diagOfLower L).foldl (· * ·) 1.0
      let det := detSqrt * detSqrt
      wrF (-0.5 * (Float.log det + mulAdd (Float.ofNat p.yMean.length) (RealLike.ln2Pi : Float) 0.0))),
  ("gp.params_roundtrip", withGp fun gp => do
    let Xq ← rdPts
    match setParameters gp (parameters gp) with
    | .error e => pure (wrGpErr e)
    | .ok gp' =>
      match sampleFunction gp Xq, sampleFunction gp' Xq with
      | .ok p, .ok p' =>
        let same := bitsEq (lnM gp) (lnM gp')
          && (p.mean.length == p'.mean.length) && (List.zipWith bitsEq p.mean p'.mean).all id
          && (List.zipWith bitsEq (parameters gp) (parameters gp')).all id
        pure (wrB same ++ " " ++ wrF (lnM gp) ++ " " ++ wrF (lnM gp') ++ " " ++ wrL wrF p.mean ++ " " ++ wrL wrF p'.mean)
      | .error e, _ => pure (wrGpErr e)
      | _, .error e => pure (wrGpErr e)),
  ("gp.query_layout", do
    let _ ← Wire.next
    let rows ← rdPts
    pure (wrMat (assemble rows (0.0 : Float)))),
  ("gp.add_noise", do
    let _ ← Wire.next
    let nm ← rdNoise
    let n ← rdN
    let flat ← rdL rdF
    let K : List (List Float) := (List.range n).map fun i => (List.range n).map fun j => flat.getD (i * n + j) 0.0
    match addNoise nm K with
    | .ok m => pure (wrMat m)
    | .error e => pure (wrGpErr e))
]

end HandDispatchC17
