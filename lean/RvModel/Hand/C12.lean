import RvModel.Gen.Defs
/-!
  Hand.C12 — hand model of `impl InverseCdf<X> for DiscreteUniform<T>` (dist/discrete_uniform.rs:231-240):

  ```rust
  fn invcdf(&self, p: f64) -> X {                       // X: Integer + From<T> + FromPrimitive
      let diff: f64 = (self.b - self.a).to_f64().unwrap();
      X::from_f64(p * diff).unwrap() + X::from(self.a)
  }
  ```

  `X` is an *integer* type; `X::from_f64` (num_traits `FromPrimitive`) converts by truncation toward zero (and is
  `None` — hence a panic — outside the range of `X`).  The generated `Gen.DiscreteUniform.invcdf_real` instantiates
  `X` with the real carrier and therefore loses the truncation; this hand model keeps it (`RealLike.toInt` =
  truncation toward zero).  Parameters are unbounded `Int` as in `Gen.DiscreteUniform` (overflow of `b - a` in `T`
  is out of the model).
-/
namespace Hand

def DiscreteUniform.invcdf {α : Type} [RealLike α] (d : Gen.DiscreteUniform α) (p : α) : Int :=
  let diff : α := RealLike.ofIntR (d.b - d.a)
  RealLike.toInt (p * diff) + d.a

end Hand
