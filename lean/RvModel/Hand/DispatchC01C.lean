import RvModel.Hand.Dispatch
import RvModel.Spec.C01C
/- driver entries of the textbook log-mass functions of Spec/C01C.lean (oracle side of ./check C01) -/
namespace HandDispatch
open GenDispatch Wire

/-- (distribution, list-of-reals observation) ↦ real -/
def dvec {S : Type} (rd : Rd S) (f : S → List Float → Float) : Rd String := do
  let _ ← Wire.next; let d ← rd; let x ← Wire.rdL Wire.rdF; pure (wrF (f d x))

def tableC01C : List (String × Rd String) := [
  ("spec.Bernoulli.ln_f_bool", db rd_Bernoulli Spec.Bernoulli.lnPmf),
  ("spec.Bernoulli.ln_f_nat", dn rd_Bernoulli Spec.Bernoulli.lnPmfNat),
  ("spec.Binomial.ln_f_nat", dn rd_Binomial Spec.Binomial.lnPmf),
  ("spec.Binomial.ln_f_int", di rd_Binomial Spec.Binomial.lnPmfInt),
  ("spec.BetaBinomial.ln_f_nat", dn rd_BetaBinomial Spec.BetaBinomial.lnPmf),
  ("spec.BetaBinomial.ln_f_int", di rd_BetaBinomial Spec.BetaBinomial.lnPmfInt),
  ("spec.Poisson.ln_f_nat", dn rd_Poisson Spec.Poisson.lnPmf),
  ("spec.Geometric.ln_f_nat", dn rd_Geometric Spec.Geometric.lnPmf),
  ("spec.NegBinomial.ln_f_nat", dn rd_NegBinomial Spec.NegBinomial.lnPmf),
  ("spec.Categorical.ln_f_nat", dn rd_Categorical Spec.Categorical.lnPmf),
  ("spec.Categorical.ln_f_bool", db rd_Categorical Spec.Categorical.lnPmfBool),
  -- the observation of DiscreteUniform is an integer (the generated model types it as a real: `ln_f_real`)
  ("spec.DiscreteUniform.ln_f", di rd_DiscreteUniform Spec.DiscreteUniform.lnPmf),
  ("spec.Dirichlet.ln_f_Vecf64", dvec rd_Dirichlet Spec.Dirichlet.lnPdf),
  ("spec.SymmetricDirichlet.ln_f_Vecf64", dvec rd_SymmetricDirichlet Spec.SymmetricDirichlet.lnPdf),
  ("spec.Crp.ln_f_Partition", do
      let _ ← Wire.next; let d ← rd_Crp; let x ← rd_Partition; pure (wrF (Spec.Crp.lnPmf d x)))
]

end HandDispatch
