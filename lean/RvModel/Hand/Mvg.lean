import RvModel.Num
import RvModel.Prelude
import RvModel.Gen.Defs
/-!
  RvModel.Hand.Mvg — hand model (executable layer) of the multivariate Gaussian family of rv (property C15):

    /repo/src/dist/mvg.rs             `MvgCache`, `MvGaussian`
    /repo/src/data/stat/mvg.rs        `MvGaussianSuffStat`
    /repo/src/dist/wishart.rs         `InvWishart`
    /repo/src/dist/niw.rs             `NormalInvWishart`
    /repo/src/dist/niw/mvg_prior.rs   `ln_z`, `ConjugatePrior<DVector<f64>, MvGaussian> for NormalInvWishart`

  None of these files is translated by `rs2lean` (nalgebra types).  Every function below is a transcription of the
  Rust AS WRITTEN (the Rust lines are cited), generic in the carrier `[RealLike α]`, Mathlib-free (linked into `rvdrv`).
  `lnmv_gamma` is the GENERATED `Gen.lnmv_gamma` (`misc/func.rs`), so that part stays tied to the code by regeneration.

  ## Representation
  * a vector (`DVector<f64>`) is a `List α`; a matrix (`DMatrix<f64>`) is the list of its ROWS (`List (List α)`),
    `nrows = length`, `ncols = length of the first row`.  A `0 × c` matrix with `c > 0` is not representable
    (it reads as `0 × 0`); such inputs are excluded from the correspondence run.
  * nalgebra routines that rv calls are modelled by small list algorithms with the same operation order where that is
    cheap (Cholesky `linalg/cholesky.rs:220-268`, the two triangular solves of `Cholesky::solve_mut`
    `linalg/solve.rs:500-519, 732-755`) and by textbook algorithms otherwise (dot products are plain left folds —
    nalgebra unrolls them 8-way; `determinant()` / `try_inverse()`: the closed forms nalgebra uses for `d ≤ 3` (`≤ 4` for the
    inverse, `do_inverse4`) are transcribed, above that Gaussian elimination with partial pivoting stands for the LU routines).
    These differ from the implementation by rounding only; the correspondence tolerance is scaled by the condition number.
  * a Rust panic (nalgebra dimension assertion, `.unwrap()` on `None`, `.expect(…)`) is the error `Err.mk "PANIC" []`.

  ## Shared scalar cores
  The scalar formula each Rust function evaluates once the linear-algebra quantities are known is a separate definition
  (`lnFCore`, `entropyCore`, `lnFStatCore`, `iwLnFCore`, `lnZCore`, `lnMCore`, `lnPpCore`).  The executable functions call
  the cores with list-computed quantities; the theorems of `Props/C15*.lean` are about THE SAME cores with the quantities
  taken from `Matrix (Fin d) (Fin d) ℝ` (arbitrary `d`).
-/
open RealLike

namespace Hand.Mvg

abbrev Vec (α : Type) := List α
abbrev Mat (α : Type) := List (List α)

def panicErr {α : Type} : Err α := Err.mk "PANIC" []

-- =================================================================================================================
section LinAlg
variable {α : Type} [RealLike α]

def nrows (m : Mat α) : Nat := m.length
def ncols (m : Mat α) : Nat := (m.headD []).length
/-- nalgebra `is_square()` -/
def isSquare (m : Mat α) : Bool := nrows m == ncols m
def mget (m : Mat α) (i j : Nat) : α := idxR (m.getD i []) j

/-- `DVector::zeros(d)` -/
def vzeros (d : Nat) : Vec α := List.replicate d (0.0 : α)
/-- `DMatrix::zeros(r, c)` -/
def mzeros (r c : Nat) : Mat α := List.replicate r (List.replicate c (0.0 : α))
/-- `DMatrix::identity(d, d)` -/
def identity (d : Nat) : Mat α :=
  (List.range d).map fun i => (List.range d).map fun j => if i = j then (1.0 : α) else (0.0 : α)

def vadd (x y : Vec α) : Vec α := List.zipWith (· + ·) x y
def vsub (x y : Vec α) : Vec α := List.zipWith (· - ·) x y
/-- `c * v` -/
def vscale (c : α) (x : Vec α) : Vec α := x.map (c * ·)
/-- `v / c` -/
def vdivs (x : Vec α) (c : α) : Vec α := x.map (· / c)
def madd (a b : Mat α) : Mat α := List.zipWith vadd a b
def msub (a b : Mat α) : Mat α := List.zipWith vsub a b
/-- `c * M` -/
def mscale (c : α) (a : Mat α) : Mat α := a.map (vscale c)
/-- `M / c` -/
def mdivs (a : Mat α) (c : α) : Mat α := a.map (vdivs · c)

/-- dot product, left fold from 0 -/
def dot (x y : Vec α) : α := (List.zipWith (· * ·) x y).foldl (· + ·) (0.0 : α)
/-- `x * y.transpose()` -/
def outer (x y : Vec α) : Mat α := x.map fun xi => y.map fun yj => xi * yj
def transpose (m : Mat α) : Mat α := (List.range (ncols m)).map fun j => m.map fun r => idxR r j
/-- `M * v` -/
def matVec (m : Mat α) (v : Vec α) : Vec α := m.map (dot · v)
/-- `vᵀ * M` (a row vector) -/
def vecMat (v : Vec α) (m : Mat α) : Vec α := (transpose m).map (dot v ·)
/-- `A * B` -/
def matMul (a b : Mat α) : Mat α := let bt := transpose b; a.map fun r => bt.map fun c => dot r c
def diagonal (m : Mat α) : Vec α := (List.range (nrows m)).map fun i => mget m i i
/-- nalgebra `trace()`: sum of the diagonal from 0 -/
def trace (m : Mat α) : α := (diagonal m).foldl (· + ·) (0.0 : α)
/-- `(vᵀ * M * v)[0]` (left-associated as in Rust) -/
def quadForm (m : Mat α) (v : Vec α) : α := dot (vecMat v m) v

/-- rows have the stated shape -/
def wellFormed (r c : Nat) (m : Mat α) : Bool := m.length == r && m.all (fun row => row.length == c)

-- ---------------------------------------------------------------------------------------------------------------
-- Cholesky  (nalgebra-0.32.6 `linalg/cholesky.rs:220-268`, `Cholesky::new_internal` with `substitute = None`)

/-- `sqrt_denom` (`cholesky.rs:238-243`) + `try_sqrt` for `f64` (`Some(sqrt v)` iff `v >= 0`): `None` when the value is
    zero, negative or NaN -/
def sqrtDenom (v : α) : Option α :=
  if feq v (0.0 : α) then none else if ge v (0.0 : α) then some (sqrt v) else none

/-- the entries `L[i][0..i]` of row `i` given the rows `0..i-1` (`prev`, row `j` has `j+1` entries) and row `i` of the
    input: `L[i][j] = (A[i][j] + Σ_{k<j} (−L[j][k])·L[i][k]) / L[j][j]` (the `axpy` of `cholesky.rs:226-235` accumulates
    `a·x·1 + 1·y` for `k = 0, 1, …`, `blas_uninit.rs:45-49`; the division is `col /= denom`, `cholesky.rs:256`), then
    the diagonal `L[i][i] = sqrt_denom(A[i][i] + Σ_{k<i} (−L[i][k])·L[i][k])`.  Only the lower triangle of `A` is read. -/
def cholRow (prev : List (List α)) (arow : List α) : Option (List α) :=
  let i := prev.length
  let acc := (List.range i).foldl (fun (acc : List α) j =>
      let lj := prev.getD j []
      let s := (List.zipWith (fun ljk lik => (ljk, lik)) lj acc).foldl
                  (fun y (p : α × α) => (-p.1) * p.2 + y) (idxR arow j)
      acc ++ [s / idxR lj j]) []
  let s := acc.foldl (fun y lik => (-lik) * lik + y) (idxR arow i)
  match sqrtDenom s with
  | none => none
  | some dg => some (acc ++ [dg])

/-- `cov.clone().cholesky()`: the lower-triangular factor `L` (as `l()`, upper part zero) or `None`.  rv only reads the
    diagonal (`ln_f`, `entropy`) and the lower triangle (`draw`) of `l_dirty()`. -/
def cholesky (a : Mat α) : Option (Mat α) :=
  let n := nrows a
  match a.foldl (fun (st : Option (List (List α))) arow =>
          match st with
          | none => none
          | some prev => match cholRow prev arow with
            | none => none
            | some r => some (prev ++ [r])) (some []) with
  | none => none
  | some rows => some (rows.map fun r => r ++ List.replicate (n - r.length) (0.0 : α))

/-- forward substitution `L y = b` (`solve.rs:500-519`): `y_r = (b_r + Σ_{i<r} (−y_i)·L[r][i]) / L[r][r]` -/
def solveLower (l : Mat α) (b : Vec α) : Vec α :=
  (List.zipWith (fun row br => (row, br)) l b).foldl (fun (ys : List α) (p : List α × α) =>
      let s := (List.zipWith (fun yi lri => (yi, lri)) ys p.1).foldl (fun y (q : α × α) => (-q.1) * q.2 + y) p.2
      ys ++ [s / idxR p.1 ys.length]) []

/-- back substitution `Lᵀ x = b` (`solve.rs:732-755`): for `i = d−1 … 0`, `x_i = (b_i − Σ_{r>i} L[r][i]·x_r) / L[i][i]` -/
def solveLowerT (l : Mat α) (b : Vec α) : Vec α :=
  let lt := transpose l
  (List.range b.length).reverse.foldl (fun (xs : List α) i =>
      let row := lt.getD i []
      ((idxR b i - dot (row.drop (i + 1)) xs) / idxR row i) :: xs) []

/-- `Cholesky::inverse` (`cholesky.rs:146-152`): `solve_mut` applied to the identity, column by column -/
def cholInverse (l : Mat α) : Mat α :=
  let n := nrows l
  transpose ((identity n).map fun e => solveLowerT l (solveLower l e))

/-- `Cholesky::ln_determinant` (`cholesky.rs:171-184`): `Σ ln(L[i][i]²)` from 0 -/
def cholLnDet (l : Mat α) : α := (diagonal l).foldl (fun s x => s + ln (x * x)) (0.0 : α)

/-- `l_dirty().diagonal().row_iter().fold(1.0, |acc, y| acc * y[0])` (`mvg.rs:422-428`, `484-490`) -/
def detSqrt (l : Mat α) : α := (diagonal l).foldl (fun acc y => acc * y) (1.0 : α)

-- ---------------------------------------------------------------------------------------------------------------
-- general determinant / inverse (nalgebra `determinant()`, `try_inverse()`): Gaussian elimination, partial pivoting

/-- index of the first entry of maximal modulus (`icamax`) -/
def argmaxAbs (xs : List α) : Nat :=
  ((enumL xs).foldl (fun (best : Nat × α) (p : Nat × α) => if lt best.2 (abs p.2) then (p.1, abs p.2) else best)
    (0, abs (idxR xs 0))).1

/-- one elimination step on the rows `m` (all of the same length ≥ 1): returns (pivot, swapped?, reduced rows) or
    `none` when the whole first column is zero -/
def elimStep (m : Mat α) : Option (α × Bool × Mat α) :=
  let col := m.map (idxR · 0)
  let p := argmaxAbs col
  let prow := m.getD p []
  let piv := idxR prow 0
  if feq piv (0.0 : α) then none
  else
    let rest := ((m.set 0 prow).set p (m.getD 0 [])).drop 1          -- swap rows 0 and p, drop the pivot row
    let inv := (1.0 : α) / piv
    let reduced := rest.map fun r =>
      let coeff := idxR r 0 * inv
      List.zipWith (fun rk pk => (-pk) * coeff + rk) (r.drop 1) (prow.drop 1)
    some (piv, p != 0, reduced)

/-- `LU::new(M).determinant()` (`linalg/lu.rs:92-121, 300-313`; used by `determinant()` for `d > 3`): product of the pivots
    times the sign of the permutation; `0` when a column has no pivot -/
def detLU (m : Mat α) : α :=
  let rec go (fuel : Nat) (m : Mat α) (acc : α) (neg : Bool) : α :=
    match fuel with
    | 0 => if neg then acc * (-(1.0 : α)) else acc * (1.0 : α)
    | fuel + 1 =>
      match elimStep m with
      | none => acc * (0.0 : α)
      | some (piv, sw, red) => go fuel red (acc * piv) (if sw then !neg else neg)
  go (nrows m) m (1.0 : α) false

/-- Gauss–Jordan on `[A | I]` with partial pivoting; `none` when singular.  Stands for `lu::try_invert_to` (used by
    `try_inverse()` for `d > 4`; same pivoting, different elimination order: rounding only) -/
def inverseGJ (a : Mat α) : Option (Mat α) :=
  let n := nrows a
  let aug : Mat α := List.zipWith (· ++ ·) a (identity n)
  let res := (List.range n).foldl (fun (st : Option (Mat α)) c =>
    match st with
    | none => none
    | some m =>
      let col := (m.drop c).map (idxR · c)
      let p := c + argmaxAbs col
      let prow := m.getD p []
      let piv := idxR prow c
      if feq piv (0.0 : α) then none
      else
        let prow := prow.map (· / piv)
        let m := (m.set p (m.getD c [])).set c prow
        some ((enumL m).map fun (ir : Nat × List α) =>
          if ir.1 = c then ir.2
          else let f := idxR ir.2 c; List.zipWith (fun x pk => x - f * pk) ir.2 prow)) (some aug)
  match res with
  | none => none
  | some m => some (m.map (·.drop n))

/-- `do_inverse4` (`linalg/inverse.rs:139-277`, the loop-unrolled cofactor inverse "from MESA"), generated from the Rust
    text; `m k` is the column-major slice entry `m[k] = M[(k % 4, k / 4)]`.  The determinant is recomputed from the first
    row of cofactors — for ill-conditioned matrices this loses all accuracy (see `props/C15_notes.md`). -/
def inverse4 (a : Mat α) : Option (Mat α) :=
  let m : Nat → α := fun k => mget a (k % 4) (k / 4)
  let o00 : α := m 5 * m 10 * m 15 - m 5 * m 11 * m 14 - m 9 * m 6 * m 15 + m 9 * m 7 * m 14 + m 13 * m 6 * m 11 - m 13 * m 7 * m 10
  let o10 : α := -m 1 * m 10 * m 15 + m 1 * m 11 * m 14 + m 9 * m 2 * m 15 - m 9 * m 3 * m 14 - m 13 * m 2 * m 11 + m 13 * m 3 * m 10
  let o20 : α := m 1 * m 6 * m 15 - m 1 * m 7 * m 14 - m 5 * m 2 * m 15 + m 5 * m 3 * m 14 + m 13 * m 2 * m 7 - m 13 * m 3 * m 6
  let o30 : α := -m 1 * m 6 * m 11 + m 1 * m 7 * m 10 + m 5 * m 2 * m 11 - m 5 * m 3 * m 10 - m 9 * m 2 * m 7 + m 9 * m 3 * m 6
  let o01 : α := -m 4 * m 10 * m 15 + m 4 * m 11 * m 14 + m 8 * m 6 * m 15 - m 8 * m 7 * m 14 - m 12 * m 6 * m 11 + m 12 * m 7 * m 10
  let o11 : α := m 0 * m 10 * m 15 - m 0 * m 11 * m 14 - m 8 * m 2 * m 15 + m 8 * m 3 * m 14 + m 12 * m 2 * m 11 - m 12 * m 3 * m 10
  let o21 : α := -m 0 * m 6 * m 15 + m 0 * m 7 * m 14 + m 4 * m 2 * m 15 - m 4 * m 3 * m 14 - m 12 * m 2 * m 7 + m 12 * m 3 * m 6
  let o31 : α := m 0 * m 6 * m 11 - m 0 * m 7 * m 10 - m 4 * m 2 * m 11 + m 4 * m 3 * m 10 + m 8 * m 2 * m 7 - m 8 * m 3 * m 6
  let o02 : α := m 4 * m 9 * m 15 - m 4 * m 11 * m 13 - m 8 * m 5 * m 15 + m 8 * m 7 * m 13 + m 12 * m 5 * m 11 - m 12 * m 7 * m 9
  let o12 : α := -m 0 * m 9 * m 15 + m 0 * m 11 * m 13 + m 8 * m 1 * m 15 - m 8 * m 3 * m 13 - m 12 * m 1 * m 11 + m 12 * m 3 * m 9
  let o22 : α := m 0 * m 5 * m 15 - m 0 * m 7 * m 13 - m 4 * m 1 * m 15 + m 4 * m 3 * m 13 + m 12 * m 1 * m 7 - m 12 * m 3 * m 5
  let o03 : α := -m 4 * m 9 * m 14 + m 4 * m 10 * m 13 + m 8 * m 5 * m 14 - m 8 * m 6 * m 13 - m 12 * m 5 * m 10 + m 12 * m 6 * m 9
  let o32 : α := -m 0 * m 5 * m 11 + m 0 * m 7 * m 9 + m 4 * m 1 * m 11 - m 4 * m 3 * m 9 - m 8 * m 1 * m 7 + m 8 * m 3 * m 5
  let o13 : α := m 0 * m 9 * m 14 - m 0 * m 10 * m 13 - m 8 * m 1 * m 14 + m 8 * m 2 * m 13 + m 12 * m 1 * m 10 - m 12 * m 2 * m 9
  let o23 : α := -m 0 * m 5 * m 14 + m 0 * m 6 * m 13 + m 4 * m 1 * m 14 - m 4 * m 2 * m 13 - m 12 * m 1 * m 6 + m 12 * m 2 * m 5
  let o33 : α := m 0 * m 5 * m 10 - m 0 * m 6 * m 9 - m 4 * m 1 * m 10 + m 4 * m 2 * m 9 + m 8 * m 1 * m 6 - m 8 * m 2 * m 5
  let dt : α := m 0 * o00 + m 1 * o01 + m 2 * o02 + m 3 * o03
  if feq dt (0.0 : α) then none
  else
    let inv_det : α := (1.0 : α) / dt
    some [[o00 * inv_det, o01 * inv_det, o02 * inv_det, o03 * inv_det],
          [o10 * inv_det, o11 * inv_det, o12 * inv_det, o13 * inv_det],
          [o20 * inv_det, o21 * inv_det, o22 * inv_det, o23 * inv_det],
          [o30 * inv_det, o31 * inv_det, o32 * inv_det, o33 * inv_det]]

/-- `M.determinant()` (`linalg/determinant.rs:17-58`): closed forms for `d ≤ 3`, LU above -/
def det (m : Mat α) : α :=
  let e := mget m
  match nrows m with
  | 0 => (1.0 : α)
  | 1 => e 0 0
  | 2 => e 0 0 * e 1 1 - e 1 0 * e 0 1
  | 3 =>
    let minor_m12_m23 := e 1 1 * e 2 2 - e 2 1 * e 1 2
    let minor_m11_m23 := e 1 0 * e 2 2 - e 2 0 * e 1 2
    let minor_m11_m22 := e 1 0 * e 2 1 - e 2 0 * e 1 1
    e 0 0 * minor_m12_m23 - e 0 1 * minor_m11_m23 + e 0 2 * minor_m11_m22
  | _ => detLU m

/-- `M.try_inverse()` (`linalg/inverse.rs:39-136`): closed forms for `d ≤ 4`, LU above; `none` when the computed
    determinant is exactly zero -/
def inverse (a : Mat α) : Option (Mat α) :=
  let e := mget a
  match nrows a with
  | 0 => some []
  | 1 =>
    let determinant := e 0 0
    if feq determinant (0.0 : α) then none else some [[(1.0 : α) / determinant]]
  | 2 =>
    let determinant := e 0 0 * e 1 1 - e 1 0 * e 0 1
    if feq determinant (0.0 : α) then none
    else some [[e 1 1 / determinant, -e 0 1 / determinant], [-e 1 0 / determinant, e 0 0 / determinant]]
  | 3 =>
    let minor_m12_m23 := e 1 1 * e 2 2 - e 2 1 * e 1 2
    let minor_m11_m23 := e 1 0 * e 2 2 - e 2 0 * e 1 2
    let minor_m11_m22 := e 1 0 * e 2 1 - e 2 0 * e 1 1
    let determinant := e 0 0 * minor_m12_m23 - e 0 1 * minor_m11_m23 + e 0 2 * minor_m11_m22
    if feq determinant (0.0 : α) then none
    else some [[minor_m12_m23 / determinant, (e 0 2 * e 2 1 - e 2 2 * e 0 1) / determinant,
                  (e 0 1 * e 1 2 - e 1 1 * e 0 2) / determinant],
               [-minor_m11_m23 / determinant, (e 0 0 * e 2 2 - e 2 0 * e 0 2) / determinant,
                  (e 0 2 * e 1 0 - e 1 2 * e 0 0) / determinant],
               [minor_m11_m22 / determinant, (e 0 1 * e 2 0 - e 2 1 * e 0 0) / determinant,
                  (e 0 0 * e 1 1 - e 1 0 * e 0 1) / determinant]]
  | 4 => inverse4 a
  | _ => inverseGJ a

end LinAlg

-- =================================================================================================================
-- scalar cores (shared with the theorems of Props/C15*.lean)
section Cores
variable {α : Type} [RealLike α]

/-- `mvg.rs:430-433`:  `det = det_sqrt * det_sqrt;  -0.5 * (det.ln() + (d as f64).mul_add(LN_2PI, term))` -/
def lnFCore (d : Nat) (detSqrt term : α) : α :=
  let det := detSqrt * detSqrt
  (-(0.5 : α)) * (ln det + mulAdd (ofNatR d) (ln2Pi : α) term)

/-- `mvg.rs:491-493`:  `det.ln().mul_add(0.5, HALF_LN_2PI_E * (nrows as f64))` -/
def entropyCore (d : Nat) (detSqrt : α) : α :=
  let det := detSqrt * detSqrt
  mulAdd (ln det) (0.5 : α) ((halfLn2PiE : α) * ofNatR d)

/-- `mvg.rs:507-523` (the non-empty branch of `ln_f_stat`) with `quad = ((x̄−μ)ᵀ Σ⁻¹ (x̄−μ))[0]`, `tr = (Σ⁻¹ σ̂).trace()`, `lnCovDet = cov_chol.ln_determinant()` -/
def lnFStatCore (n k : Nat) (lnCovDet quad tr : α) : α :=
  let nf : α := ofNatR n
  let kf : α := ofNatR k
  let neg_half_n := (-(0.5 : α)) * nf
  mulAdd neg_half_n (mulAdd (ln2Pi : α) kf lnCovDet + quad) (-tr / (2.0 : α))

/-- `wishart.rs:162-175` with `detS = inv_scale.determinant()`, `detX = x.determinant()`,
    `tr = (inv_scale * x⁻¹).trace()` -/
def iwLnFCore (p df : Nat) (detS detX tr : α) : α :=
  let pf : α := ofNatR p
  let v : α := ofNatR df
  let det_s := v * (0.5 : α) * ln detS
  let det_x := -(v + pf + (1.0 : α)) * (0.5 : α) * ln detX
  let denom := mulAdd (ln2 : α) (v * pf * (0.5 : α)) (Gen.lnmv_gamma p ((0.5 : α) * v))
  let numer := (-(0.5 : α)) * tr
  det_s - denom + det_x + numer

/-- `mvg_prior.rs:12-21` `ln_z(k, df, scale)` with `d = scale.nrows()`, `detScale = scale.determinant()` -/
def lnZCore (k : α) (df d : Nat) (detScale : α) : α :=
  let p : α := ofNatR d
  let v2 : α := ofNatR df / (2.0 : α)
  mulAdd (v2 * p) (ln2 : α) (Gen.lnmv_gamma d v2)
    + mulAdd (p / (2.0 : α)) (ln ((2.0 : α) * (pi : α) / k)) (-v2 * ln detScale)

/-- `mvg_prior.rs:74-76`:  `nd = ndims·n;  (nd / 2.0).mul_add(-LN_2PI, zn - z0)` -/
def lnMCore (ndims n : Nat) (zn z0 : α) : α :=
  let nd : α := ofNatR ndims * ofNatR n
  mulAdd (nd / (2.0 : α)) (-(ln2Pi : α)) (zn - z0)

/-- `mvg_prior.rs:98-100`:  `(d / 2.0).mul_add(-LN_2PI, zm - zn)` -/
def lnPpCore (ndims : Nat) (zm zn : α) : α :=
  let d : α := ofNatR ndims
  mulAdd (d / (2.0 : α)) (-(ln2Pi : α)) (zm - zn)

end Cores

-- =================================================================================================================
-- dist/mvg.rs

/-- `mvg.rs:17-22` -/
structure MvgCache (α : Type) where
  /-- lower-triangular Cholesky factor of the covariance -/
  cov_chol : Mat α
  /-- inverse of the covariance -/
  cov_inv : Mat α

/-- `mvg.rs:93-104`; every constructor fills the `OnceLock` cache, so it is a plain field here -/
structure MvGaussian (α : Type) where
  mu : Vec α
  cov : Mat α
  cache : MvgCache α

section Mvg
variable {α : Type} [RealLike α]

/-- `MvgCache::from_cov` (`mvg.rs:25-33`) -/
def MvgCache.from_cov (cov : Mat α) : Except (Err α) (MvgCache α) :=
  match cholesky cov with
  | none => .error (Err.mk "CovNotPositiveSemiDefinite" [])                         -- :27
  | some l => .ok ⟨l, cholInverse l⟩                                                -- :28-31

/-- `MvGaussian::new` (`mvg.rs:169-189`) -/
def MvGaussian.new (mu : Vec α) (cov : Mat α) : Except (Err α) (MvGaussian α) :=
  let cov_rows := nrows cov                                                          -- :173
  let cov_cols := ncols cov                                                          -- :174
  if cov_rows ≠ cov_cols then                                                        -- :175
    .error (Err.mk "CovNotSquare" [ofNatR cov_rows, ofNatR cov_cols])
  else if mu.length ≠ cov_rows then                                                  -- :180
    .error (Err.mk "MuCovDimensionMismatch" [ofNatR mu.length, ofNatR cov_rows])
  else
    match MvgCache.from_cov cov with                                                 -- :186 (`?`)
    | .error e => .error e
    | .ok cache => .ok ⟨mu, cov, cache⟩                                              -- :187

/-- `MvGaussian::new_unchecked` (`mvg.rs:234-237`): `from_cov(&cov).unwrap()` panics when the Cholesky fails -/
def MvGaussian.new_unchecked (mu : Vec α) (cov : Mat α) : Except (Err α) (MvGaussian α) :=
  match MvgCache.from_cov cov with
  | .error _ => .error panicErr
  | .ok cache => .ok ⟨mu, cov, cache⟩

/-- `MvgCache::from_chol` (`mvg.rs:36-39`) -/
def MvgCache.from_chol (l : Mat α) : MvgCache α := ⟨l, cholInverse l⟩

/-- `MvgCache::cov` (`mvg.rs:42-45`): `l() * l()ᵀ` — the CLEAN factor `l()` (upper triangle zero), which is what
    `cov_chol` is in this model (`l_dirty()` would keep the entries of the input above the diagonal) -/
def MvgCache.cov (c : MvgCache α) : Mat α := matMul c.cov_chol (transpose c.cov_chol)

/-- `MvGaussian::new_cholesky` (`mvg.rs:214-229`), `l` = the factor of the supplied `Cholesky` -/
def MvGaussian.new_cholesky (mu : Vec α) (l : Mat α) : Except (Err α) (MvGaussian α) :=
  let cov := matMul l (transpose l)                                                  -- :218-219
  if mu.length ≠ nrows cov then                                                      -- :220
    .error (Err.mk "MuCovDimensionMismatch" [ofNatR mu.length, ofNatR (nrows cov)])
  else .ok ⟨mu, cov, MvgCache.from_chol l⟩                                           -- :226-227

/-- `MvGaussian::new_cholesky_unchecked` (`mvg.rs:242-249`): the covariance is rebuilt by `MvgCache::cov` -/
def MvGaussian.new_cholesky_unchecked (mu : Vec α) (l : Mat α) : MvGaussian α :=
  let cache := MvgCache.from_chol l                                                  -- :246
  ⟨mu, cache.cov, cache⟩                                                             -- :247-248

/-- `emit_params` (`mvg.rs:115-120`) -/
def MvGaussian.emit_params (self : MvGaussian α) : Vec α × Mat α := (self.mu, self.cov)

/-- `from_params` (`mvg.rs:122-124`) = `new_unchecked` -/
def MvGaussian.from_params (p : Vec α × Mat α) : Except (Err α) (MvGaussian α) := MvGaussian.new_unchecked p.1 p.2

/-- nalgebra `==` on vectors: same length, all entries `==` (NaN is not equal to itself) -/
def vecEq (x y : Vec α) : Bool := x.length == y.length && (List.zipWith (fun a b => feq a b) x y).all id
/-- nalgebra `==` on matrices: same shape, all entries `==` -/
def matEq (a b : Mat α) : Bool :=
  nrows a == nrows b && ncols a == ncols b && (List.zipWith (fun r q => vecEq r q) a b).all id

/-- `PartialEq` (`mvg.rs:133-137`): parameters only, the cache is ignored -/
def MvGaussian.eq (a b : MvGaussian α) : Bool := vecEq a.mu b.mu && matEq a.cov b.cov

/-- `MvGaussian::set_mu` (`mvg.rs:324-334`) as a state transformer: (the object AFTER the call, the `Result`).
    On the error path nothing has been assigned. -/
def MvGaussian.set_mu_st (self : MvGaussian α) (mu : Vec α) : MvGaussian α × Except (Err α) Unit :=
  if mu.length ≠ nrows self.cov then                                                 -- :325
    (self, .error (Err.mk "MuCovDimensionMismatch" [ofNatR mu.length, ofNatR (nrows self.cov)]))
  else ({ self with mu := mu }, .ok ())                                              -- :331-332

/-- `MvGaussian::set_cov` (`mvg.rs:372-394`) as a state transformer.  The `?` on `MvgCache::from_cov(&cov)` (:388) returns
    BEFORE `self.cov = cov` (:389): a rejected matrix leaves the object untouched; on success the cache is REPLACED by
    the one of the new matrix (:390-391). -/
def MvGaussian.set_cov_st (self : MvGaussian α) (cov : Mat α) : MvGaussian α × Except (Err α) Unit :=
  let cov_rows := nrows cov                                                          -- :376
  if self.mu.length ≠ cov_rows then                                                  -- :377
    (self, .error (Err.mk "MuCovDimensionMismatch" [ofNatR self.mu.length, ofNatR cov_rows]))
  else if cov_rows ≠ ncols cov then                                                  -- :382
    (self, .error (Err.mk "CovNotSquare" [ofNatR cov_rows, ofNatR (ncols cov)]))
  else
    match MvgCache.from_cov cov with                                                 -- :388
    | .error e => (self, .error e)
    | .ok cache => ({ self with cov := cov, cache := cache }, .ok ())                -- :389-392

/-- the setter in the `Except` convention of the generated model (`&mut self` ↦ the new `self`) -/
def MvGaussian.set_mu (self : MvGaussian α) (mu : Vec α) : Except (Err α) (MvGaussian α) :=
  match self.set_mu_st mu with
  | (s, .ok _) => .ok s
  | (_, .error e) => .error e

def MvGaussian.set_cov (self : MvGaussian α) (cov : Mat α) : Except (Err α) (MvGaussian α) :=
  match self.set_cov_st cov with
  | (s, .ok _) => .ok s
  | (_, .error e) => .error e

/-- `ln_f` (`mvg.rs:420-434`): `diff = x − μ`; `det_sqrt` = product of the diagonal of the Cholesky factor;
    `term = (diffᵀ · cov_inv · diff)[0]` -/
def MvGaussian.ln_f (self : MvGaussian α) (x : Vec α) : α :=
  let diff := vsub x self.mu                                                         -- :421
  let det_sqrt := detSqrt self.cache.cov_chol                                        -- :422-428
  let term := quadForm self.cache.cov_inv diff                                       -- :431-432
  lnFCore diff.length det_sqrt term                                                  -- :430, 433 (`diff.nrows()`)

/-- `draw` with the standard-normal variates `z` supplied (`mvg.rs:438-453`): `out_i = μ_i; for j in 0..=i { out_i += L[i][j]·z_j }` -/
def MvGaussian.draw_z (self : MvGaussian α) (z : Vec α) : Vec α :=
  let a := self.cache.cov_chol                                                       -- :443
  (List.range self.mu.length).map fun i =>                                           -- :446
    (List.range (i + 1)).foldl (fun out j => out + mget a i j * idxR z j) (idxR self.mu i)   -- :447-451

/-- `mean`, `mode` (`mvg.rs:465-473`), `variance` (`mvg.rs:477-479`) -/
def MvGaussian.mean (self : MvGaussian α) : Option (Vec α) := some self.mu
def MvGaussian.mode (self : MvGaussian α) : Option (Vec α) := some self.mu
def MvGaussian.variance (self : MvGaussian α) : Option (Mat α) := some self.cov

/-- `entropy` (`mvg.rs:483-494`) -/
def MvGaussian.entropy (self : MvGaussian α) : α :=
  entropyCore (nrows self.cov) (detSqrt self.cache.cov_chol)

end Mvg

-- =================================================================================================================
-- data/stat/mvg.rs

/-- `stat/mvg.rs:10-14` -/
structure MvGaussianSuffStat (α : Type) where
  n : Nat
  sum_x : Vec α
  sum_x_sq : Mat α

section Stat
variable {α : Type} [RealLike α]

/-- `MvGaussianSuffStat::new` (`stat/mvg.rs:18-24`) -/
def MvGaussianSuffStat.new (dims : Nat) : MvGaussianSuffStat α := ⟨0, vzeros dims, mzeros dims dims⟩

/-- `observe` (`stat/mvg.rs:61-70`): the first observation ASSIGNS, later ones accumulate -/
def MvGaussianSuffStat.observe (self : MvGaussianSuffStat α) (x : Vec α) : MvGaussianSuffStat α :=
  let n := self.n + 1                                                                -- :62
  if n = 1 then ⟨n, x, outer x x⟩                                                    -- :63-65
  else ⟨n, vadd self.sum_x x, madd self.sum_x_sq (outer x x)⟩                        -- :67-68

/-- `forget` (`stat/mvg.rs:72-82`); `self.n -= 1` on an empty statistic (overflow) is outside the model -/
def MvGaussianSuffStat.forget (self : MvGaussianSuffStat α) (x : Vec α) : MvGaussianSuffStat α :=
  let n := self.n - 1                                                                -- :73
  if n > 0 then ⟨n, vsub self.sum_x x, msub self.sum_x_sq (outer x x)⟩               -- :74-76
  else let dims := self.sum_x.length; ⟨n, vzeros dims, mzeros dims dims⟩             -- :78-80

/-- `observe_many` (`traits.rs:677-679`) -/
def MvGaussianSuffStat.observe_many (self : MvGaussianSuffStat α) (xs : List (Vec α)) : MvGaussianSuffStat α :=
  xs.foldl MvGaussianSuffStat.observe self

/-- `ln_f_stat` (`mvg.rs:503-524`); the empty statistic returns `0.0` (:504-506, commit ed8aba1) -/
def MvGaussian.ln_f_stat (self : MvGaussian α) (stat : MvGaussianSuffStat α) : α :=
  if stat.n = 0 then (0.0 : α)                                                       -- :504-506
  else
    let n : α := ofNatR stat.n                                                       -- :507
    let x_bar := vdivs stat.sum_x n                                                  -- :509
    let sigma_hat := msub stat.sum_x_sq (mdivs (outer stat.sum_x stat.sum_x) n)      -- :510-511
    let sigma_inv := self.cache.cov_inv                                              -- :512
    let ln_cov_det := cholLnDet self.cache.cov_chol                                  -- :513
    lnFStatCore stat.n stat.sum_x.length ln_cov_det
      (quadForm sigma_inv (vsub x_bar self.mu))                                      -- :519-521
      (trace (matMul sigma_inv sigma_hat))                                           -- :522

end Stat

-- =================================================================================================================
-- dist/wishart.rs

/-- `wishart.rs:17-22` -/
structure InvWishart (α : Type) where
  inv_scale : Mat α
  df : Nat

section IW
variable {α : Type} [RealLike α]

/-- `validate_inv_scale` (`wishart.rs:56-73`) -/
def validate_inv_scale (inv_scale : Mat α) (df : Nat) : Except (Err α) Unit :=
  if ¬ (isSquare inv_scale = true) then                                              -- :60
    .error (Err.mk "ScaleMatrixNotSquare" [ofNatR (nrows inv_scale), ofNatR (ncols inv_scale)])
  else if df < nrows inv_scale then                                                  -- :65
    .error (Err.mk "DfLessThanDimensions" [ofNatR df, ofNatR (nrows inv_scale)])
  else .ok ()

/-- `InvWishart::new` (`wishart.rs:83-89`) -/
def InvWishart.new (inv_scale : Mat α) (df : Nat) : Except (Err α) (InvWishart α) :=
  match validate_inv_scale inv_scale df with
  | .error e => .error e
  | .ok _ => .ok ⟨inv_scale, df⟩

/-- `InvWishart::set_df` (`wishart.rs:127-135`) -/
def InvWishart.set_df (self : InvWishart α) (df : Nat) : Except (Err α) (InvWishart α) :=
  let ndims := nrows self.inv_scale
  if df < ndims then .error (Err.mk "DfLessThanDimensions" [ofNatR df, ofNatR ndims])
  else .ok { self with df := df }

/-- `InvWishart::set_inv_scale` (`wishart.rs:145-152`) -/
def InvWishart.set_inv_scale (self : InvWishart α) (inv_scale : Mat α) : Except (Err α) (InvWishart α) :=
  match validate_inv_scale inv_scale self.df with
  | .error e => .error e
  | .ok _ => .ok { self with inv_scale := inv_scale }

/-- `ln_f` (`wishart.rs:161-176`); `x.try_inverse().unwrap()` panics on a singular `x` -/
def InvWishart.ln_f (self : InvWishart α) (x : Mat α) : Except (Err α) α :=
  let p := nrows self.inv_scale                                                      -- :162
  match inverse x with                                                               -- :173
  | none => .error panicErr
  | some xinv =>
    .ok (iwLnFCore p self.df (det self.inv_scale) (det x) (trace (matMul self.inv_scale xinv)))

/-- `mean` (`wishart.rs:228-235`) -/
def InvWishart.mean (self : InvWishart α) : Option (Mat α) :=
  let p := nrows self.inv_scale
  if self.df > p + 1 then some (mdivs self.inv_scale (ofNatR (self.df - p - 1))) else none

/-- `mode` (`wishart.rs:239-242`) -/
def InvWishart.mode (self : InvWishart α) : Option (Mat α) :=
  let p := nrows self.inv_scale
  some (mdivs self.inv_scale (ofNatR (self.df + p + 1)))

/-- the matrix `y = Σ x xᵀ` of `draw` (`wishart.rs:188-194`) before the final inversion, given the drawn vectors -/
def InvWishart.scatter_of_draws (p : Nat) (xs : List (Vec α)) : Mat α :=
  xs.foldl (fun acc x => madd acc (outer x x)) (mzeros p p)

/-- `InvWishart::draw` (`wishart.rs:183-196`) with the standard-normal variates supplied: `zs` = the `df` vectors of
    variates consumed by `mvg.sample(self.df, rng)`; the two `try_inverse().unwrap()` and `new_unchecked` can panic -/
def InvWishart.draw_z (self : InvWishart α) (zs : List (Vec α)) : Except (Err α) (Mat α) :=
  let p := nrows self.inv_scale                                                      -- :184
  match inverse self.inv_scale with                                                  -- :185
  | none => .error panicErr
  | some scale =>
    match MvGaussian.new_unchecked (vzeros p) scale with                             -- :186
    | .error e => .error e
    | .ok mvg =>
      let xs := zs.map mvg.draw_z                                                    -- :187
      let y := InvWishart.scatter_of_draws p xs                                      -- :188-194
      match inverse y with                                                           -- :195
      | none => .error panicErr
      | some r => .ok r

end IW

-- =================================================================================================================
-- dist/niw.rs and dist/niw/mvg_prior.rs

/-- `niw.rs:42-51` -/
structure NormalInvWishart (α : Type) where
  mu : Vec α
  k : α
  df : Nat
  scale : Mat α

section NIW
variable {α : Type} [RealLike α]

/-- `validate_params` (`niw.rs:101-125`).  The test is `!(k > 0.0)` (commit 395fe75): a NaN `k` is rejected. -/
def NormalInvWishart.validate_params (mu : Vec α) (k : α) (df : Nat) (scale : Mat α) : Except (Err α) Unit :=
  let ndims := mu.length                                                             -- :107
  if ¬ (gt k (0.0 : α) = true) then .error (Err.mk "KTooLow" [k])                    -- :108
  else if df < ndims then .error (Err.mk "DfLessThanDimensions" [ofNatR df, ofNatR ndims])          -- :110
  else if ¬ (isSquare scale = true) then                                             -- :112
    .error (Err.mk "ScaleMatrixNotSquare" [ofNatR (nrows scale), ofNatR (ncols scale)])
  else if ndims ≠ nrows scale then                                                   -- :117
    .error (Err.mk "MuScaleDimensionMismatch" [ofNatR ndims, ofNatR (nrows scale)])
  else .ok ()

/-- `NormalInvWishart::new` (`niw.rs:136-144`) -/
def NormalInvWishart.new (mu : Vec α) (k : α) (df : Nat) (scale : Mat α) : Except (Err α) (NormalInvWishart α) :=
  match NormalInvWishart.validate_params mu k df scale with
  | .error e => .error e
  | .ok _ => .ok ⟨mu, k, df, scale⟩

/-- `set_k` (`niw.rs:178-185`) -/
def NormalInvWishart.set_k (self : NormalInvWishart α) (k : α) : Except (Err α) (NormalInvWishart α) :=
  if ¬ (gt k (0.0 : α) = true) then .error (Err.mk "KTooLow" [k]) else .ok { self with k := k }     -- :179

/-- `set_df` (`niw.rs:201-209`) -/
def NormalInvWishart.set_df (self : NormalInvWishart α) (df : Nat) : Except (Err α) (NormalInvWishart α) :=
  let ndims := self.mu.length
  if df < ndims then .error (Err.mk "DfLessThanDimensions" [ofNatR df, ofNatR ndims]) else .ok { self with df := df }

/-- `set_scale` (`niw.rs:225-232`) -/
def NormalInvWishart.set_scale (self : NormalInvWishart α) (scale : Mat α) : Except (Err α) (NormalInvWishart α) :=
  match NormalInvWishart.validate_params self.mu self.k self.df scale with
  | .error e => .error e
  | .ok _ => .ok { self with scale := scale }

/-- `set_mu` (`niw.rs:241-248`) -/
def NormalInvWishart.set_mu (self : NormalInvWishart α) (mu : Vec α) : Except (Err α) (NormalInvWishart α) :=
  match NormalInvWishart.validate_params mu self.k self.df self.scale with
  | .error e => .error e
  | .ok _ => .ok { self with mu := mu }

/-- `ln_f` (`niw.rs:270-277`): `N(x.mu | m, x.cov / k)` (built with `new_unchecked`: Cholesky of `x.cov / k`, panics if it
    fails) plus `InvWishart(scale, df).ln_f(x.cov)` -/
def NormalInvWishart.ln_f (self : NormalInvWishart α) (x : MvGaussian α) : Except (Err α) α :=
  let m := self.mu                                                                   -- :271
  let sigma := mdivs x.cov self.k                                                    -- :272
  match MvGaussian.new_unchecked m sigma with                                        -- :274
  | .error e => .error e
  | .ok mvg =>
    let iw : InvWishart α := ⟨self.scale, self.df⟩                                   -- :275
    match iw.ln_f x.cov with                                                         -- :276
    | .error e => .error e
    | .ok b => .ok (mvg.ln_f x.mu + b)

/-- `NormalInvWishart::draw` (`niw.rs:281-290`) with the variates supplied (`zs` for the inverse-Wishart part, `z` for the
    mean): `Σ ~ W⁻¹(Ψ, ν)`, then `μ = draw of N(μ₀, Σ/κ)` (a SECOND Gaussian built on `Σ/κ`, so `μ = μ₀ + chol(Σ/κ)·z`),
    result `MvGaussian::new(μ, Σ).unwrap()` -/
def NormalInvWishart.draw_z (self : NormalInvWishart α) (zs : List (Vec α)) (z : Vec α) : Except (Err α) (MvGaussian α) :=
  let iw : InvWishart α := ⟨self.scale, self.df⟩                                     -- :282
  match iw.draw_z zs with                                                            -- :283
  | .error e => .error e
  | .ok sigma =>
    match MvGaussian.new_unchecked self.mu (mdivs sigma self.k) with                 -- :285-286
    | .error e => .error e
    | .ok mvg =>
      let mu := mvg.draw_z z                                                         -- :287
      match MvGaussian.new mu sigma with                                             -- :289
      | .error _ => .error panicErr
      | .ok g => .ok g

/-- `ln_z` (`mvg_prior.rs:12-21`) -/
def ln_z (k : α) (df : Nat) (scale : Mat α) : α :=
  lnZCore k df (nrows scale) (det scale)

abbrev MvgData (α : Type) := DataOrSuffStat (Vec α) (MvGaussianSuffStat α)

/-- `DataOrSuffStat::n` (`data/mod.rs:159-164`) -/
def MvgData.n : MvgData α → Nat
  | .data xs => xs.length
  | .suffStat s => s.n

/-- `extract_stat` (`data/mod.rs:215-232`) -/
def MvgData.extract (x : MvgData α) (ndims : Nat) : MvGaussianSuffStat α :=
  match x with
  | .suffStat s => s
  | .data xs => (MvGaussianSuffStat.new ndims).observe_many xs

/-- the arguments of the `NormalInvWishart::new` call at `mvg_prior.rs:59` -/
def NormalInvWishart.posterior_params (self : NormalInvWishart α) (nf : α) (stat : MvGaussianSuffStat α) :
    Vec α × α × Nat × Mat α :=
  let sn_f : α := ofNatR stat.n
  let xbar := vdivs stat.sum_x sn_f                                                  -- :38
  let diff := vsub xbar self.mu                                                      -- :39
  let s := msub (msub (madd stat.sum_x_sq (mscale nf (outer xbar xbar)))             -- :45-46
                      (outer stat.sum_x xbar))                                       -- :47
                (outer xbar stat.sum_x)                                              -- :48
  let kn := self.k + sn_f                                                            -- :50
  let vn := self.df + stat.n                                                         -- :51
  let mn := vdivs (vadd (vscale self.k self.mu) stat.sum_x) kn                       -- :52
  let sn := madd (madd self.scale s)                                                 -- :53-54
                 (outer (vscale ((self.k * sn_f) / kn) diff) diff)                   -- :55-57
  (mn, kn, vn, sn)

/-- `posterior` (`mvg_prior.rs:28-63`), both `DataOrSuffStat` arms; the `.expect` at :60 is a panic -/
def NormalInvWishart.posterior (self : NormalInvWishart α) (x : MvgData α) : Except (Err α) (NormalInvWishart α) :=
  if MvgData.n x = 0 then .ok self                                                   -- :29-31
  else
    let nf : α := ofNatR (MvgData.n x)                                               -- :33
    let stat := MvgData.extract x self.mu.length                                     -- :34-36
    let p := self.posterior_params nf stat
    match NormalInvWishart.new p.1 p.2.1 p.2.2.1 p.2.2.2 with                        -- :59
    | .error _ => .error panicErr                                                    -- :60
    | .ok post => .ok post

/-- `ln_m_cache` (`mvg_prior.rs:66-68`) -/
def NormalInvWishart.ln_m_cache (self : NormalInvWishart α) : α := ln_z self.k self.df self.scale

/-- `ln_m_with_cache` (`mvg_prior.rs:70-77`) -/
def NormalInvWishart.ln_m_with_cache (self : NormalInvWishart α) (cache : α) (x : MvgData α) : Except (Err α) α :=
  let z0 := cache                                                                    -- :71
  match self.posterior x with                                                        -- :72
  | .error e => .error e
  | .ok post =>
    let zn := ln_z post.k post.df post.scale                                         -- :73
    .ok (lnMCore self.mu.length (MvgData.n x) zn z0)                                 -- :74-76

/-- `ln_m` (`traits.rs:564-567`) -/
def NormalInvWishart.ln_m (self : NormalInvWishart α) (x : MvgData α) : Except (Err α) α :=
  self.ln_m_with_cache self.ln_m_cache x

/-- `ln_pp_cache` (`mvg_prior.rs:80-84`) -/
def NormalInvWishart.ln_pp_cache (self : NormalInvWishart α) (x : MvgData α) : Except (Err α) (NormalInvWishart α × α) :=
  match self.posterior x with
  | .error e => .error e
  | .ok post => .ok (post, ln_z post.k post.df post.scale)

/-- `ln_pp_with_cache` (`mvg_prior.rs:86-101`) -/
def NormalInvWishart.ln_pp_with_cache (self : NormalInvWishart α) (cache : NormalInvWishart α × α) (y : Vec α) :
    Except (Err α) α :=
  let post := cache.1                                                                -- :87
  let zn := cache.2                                                                  -- :88
  let y_stat := (MvGaussianSuffStat.new self.mu.length).observe y                    -- :90-91
  match post.posterior (.suffStat y_stat) with                                       -- :94
  | .error e => .error e
  | .ok pred =>
    let zm := ln_z pred.k pred.df pred.scale                                         -- :96
    .ok (lnPpCore self.mu.length zm zn)                                              -- :98-100

/-- `ln_pp` (`traits.rs:578-581`) -/
def NormalInvWishart.ln_pp (self : NormalInvWishart α) (y : Vec α) (x : MvgData α) : Except (Err α) α :=
  match self.ln_pp_cache x with
  | .error e => .error e
  | .ok cache => self.ln_pp_with_cache cache y

end NIW

end Hand.Mvg
