import RvModel.Hand.Ks
/-!
  RvModel.Hand.Empirical — hand model of `/repo/src/dist/empirical.rs` (the parts the translator rejects: sorting, the
  private `Pos` enum, `binary_search_by`).  `mean` / `variance` ARE generated (`Gen.Empirical.mean_real`,
  `Gen.Empirical.variance_real`) and are used as they are.  Mathlib-free, generic in `[RealLike α]`.
-/

namespace Hand
open RealLike

variable {α : Type} [RealLike α]

/-- empirical.rs:39-45 -/
inductive Pos where
  | first
  | last
  | present (ix : Nat)
  | absent (ix : Nat)
  deriving DecidableEq, Repr

namespace Empirical

/-- empirical.rs:67-75 `Empirical::new`: sort, `min = xs[0]`, `max = xs[len-1]`.
    `none` = the index panic on an empty vector (`xs[0]` with `len = 0`). -/
def new? (xs : List α) : Option (Gen.Empirical α) :=
  let s := sortR xs
  match s with
  | [] => none
  | x0 :: _ => some { xs := s, range := (x0, idxR s (s.length - 1)) }

/-- empirical.rs:60-62 `Parameterized::from_params(params) = Self::new(params.xs)`: the parameter object's public `xs` need not
    be sorted (it may have been edited after `emit_params`); the constructor sorts it and recomputes the range.
    `Gen.Empirical.emit_params` (generated) hands out the sorted sample. -/
def fromParams? (params : Gen.EmpiricalParameters α) : Option (Gen.Empirical α) := new? params.xs

/-- empirical.rs:77-87 -/
def pos (self : Gen.Empirical α) (x : α) : Pos :=
  if RealLike.lt x self.range.1 then Pos.first
  else if RealLike.ge x self.range.2 then Pos.last
  else
    let r := bsearch self.xs x
    if r.1 then Pos.present r.2 else Pos.absent r.2

/-- empirical.rs:90-97 -/
def empcdf (self : Gen.Empirical α) : Pos → α
  | .first => (0.0 : α)
  | .last => (1.0 : α)
  | .present ix => (ofNatR ix : α) / ofNatR self.xs.length
  | .absent ix => (ofNatR ix : α) / ofNatR self.xs.length

/-- empirical.rs:180-183 `impl Cdf<f64>` -/
def cdf (self : Gen.Empirical α) (x : α) : α := empcdf self (pos self x)

/-- empirical.rs:100-108 -/
def empcdfs (self : Gen.Empirical α) (values : List α) : List α := values.map (fun v => empcdf self (pos self v))

/-- empirical.rs:111-116 -/
def pp (self other : Gen.Empirical α) : List α × List α :=
  let xys := sortR (self.xs ++ other.xs)
  (empcdfs self xys, empcdfs other xys)

/-- empirical.rs:119-134 `err`: trapezoid sum of `|fx - fy|` against `fx` -/
def err (self other : Gen.Empirical α) : α :=
  let (fxs, fys) := pp self other
  let diff : List α := (fxs.zip fys).map (fun (p : α × α) => RealLike.abs (p.1 - p.2))
  let q := (List.range' 1 (fxs.length - 1)).foldl (fun (q : α) i =>
      let step := idxR fxs i - idxR fxs (i - 1)
      let trap := idxR diff i + idxR diff (i - 1)
      q + step * trap) (0.0 : α)
  q / (2.0 : α)

end Empirical
end Hand
