import RvModel.Prelude
import RvModel.Gen.Defs
import RvModel.Hand.Legendre
import RvModel.Hand.C08Extra
/-!
  Hand.Mixture — hand model of `src/dist/mixture.rs` (`Mixture<Fx>`) over an ABSTRACT component family.

  The translator does not handle the generic component type `Fx`; every function below is a line-by-line
  transcription of the Rust (line numbers of `/repo/src/dist/mixture.rs` in the doc comments), generic in the
  numeric carrier `[RealLike α]` and in the observation type `Ob`.  `ln_f` calls the GENERATED
  `Gen.logsumexp`, `drawIndex` the GENERATED `Gen.cumsum` / `Gen.catflip`, so the model stays tied to the code
  of `src/misc/func.rs` by regeneration.

  A component is the record of the trait methods the mixture code calls on `Fx`:
  `ln_f`, `f` (`HasDensity`), `cdf` (`Cdf`), `mean` (`Mean<f64>`), `variance` (`Variance<f64>`), `supports`.
  The cache `ln_weights : OnceLock<Vec<f64>>` is dropped (as in generated structs): `ln_weights()` is inlined as
  `weights.map ln` (mixture.rs:162-165; the cache is reset by every weight mutator, mixture.rs:310,317).

  Mathlib-free (linked into `rvdrv`).
-/
open RealLike

namespace Hand.Mixture

/-- what `Mixture<Fx>` needs from a component `Fx` observed at type `Ob` -/
structure Comp (α : Type) (Ob : Type) where
  lnF : Ob → α
  f : Ob → α
  cdf : Ob → α
  mean : Option α
  variance : Option α
  supports : Ob → Bool

/-- mixture.rs:34-42 (`ln_weights` cache dropped) -/
structure Mix (α : Type) (Ob : Type) where
  weights : List α
  comps : List (Comp α Ob)

variable {α : Type} [RealLike α] {Ob : Type}

/-- Rust `Iterator::try_fold` with a `Result` accumulator: stop at the first error -/
def tryFoldE {β σ ε : Type} (f : σ → β → Except ε σ) : σ → List β → Except ε σ
  | s, [] => .ok s
  | s, x :: xs => match f s x with
    | .error e => .error e
    | .ok s' => tryFoldE f s' xs

/-- Rust `Iterator::try_fold` with an `Option` accumulator: stop at the first `None` -/
def tryFoldO {β σ : Type} (f : σ → β → Option σ) : σ → List β → Option σ
  | s, [] => some s
  | s, x :: xs => match f s x with
    | none => none
    | some s' => tryFoldO f s' xs

/-- mixture.rs:104-127 `validate_weights` (after the repair "Mixture weight validation rejects NaN weights":
    the sum test is `!((sum - 1.0).abs() <= 1E-12)`, mixture.rs:121, so a NaN sum — i.e. a NaN weight — is rejected
    with `WeightsDoNotSumToOne`).
    `WeightTooLow { ix, weight }` ↦ payload `[ix, weight]`, `WeightsDoNotSumToOne { sum }` ↦ `[sum]`. -/
def validateWeights (weights : List α) : Except (Err α) Unit :=
  if weights.isEmpty then .error (Err.mk "WeightsEmpty" [])                       -- :106-108
  else
    match tryFoldE (fun (sum : α) (p : Nat × α) =>                                -- :110-119
            if RealLike.lt p.2 (0.0 : α) then .error (Err.mk "WeightTooLow" [ofNatR p.1, p.2])
            else .ok (sum + p.2)) (0.0 : α) (enumL weights) with
    | .error e => .error e
    | .ok sum =>                                                                  -- :120-126
      if !(RealLike.le (RealLike.abs (sum - (1.0 : α))) (1E-12 : α))                -- :121 `!(… <= 1E-12)`: NaN sum ⇒ error
      then .error (Err.mk "WeightsDoNotSumToOne" [sum])
      else .ok ()

/-- mixture.rs:136-160 `Mixture::new` -/
def new (weights : List α) (components : List (Comp α Ob)) : Except (Err α) (Mix α Ob) :=
  if weights.isEmpty then .error (Err.mk "WeightsEmpty" [])                       -- :140-141
  else if components.isEmpty then .error (Err.mk "ComponentsEmpty" [])            -- :142-143
  else if components.length != weights.length then                                -- :144-148
    .error (Err.mk "ComponentWeightLengthMismatch" [ofNatR weights.length, ofNatR components.length])
  else
    match validateWeights weights with                                            -- :153
    | .error e => .error e
    | .ok _ => .ok ⟨weights, components⟩                                          -- :155-159

/-- mixture.rs:169-175 `Mixture::new_unchecked` -/
def newUnchecked (weights : List α) (components : List (Comp α Ob)) : Mix α Ob := ⟨weights, components⟩

/-- mixture.rs:182-194 `Mixture::uniform`: weights `vec![1.0 / k as f64; k]`, no validation -/
def uniform (components : List (Comp α Ob)) : Except (Err α) (Mix α Ob) :=
  if components.isEmpty then .error (Err.mk "ComponentsEmpty" [])
  else
    let k := components.length
    .ok ⟨List.replicate k ((1.0 : α) / ofNatR k), components⟩

/-- mixture.rs:235-237 `Mixture::k` — the number of COMPONENTS -/
def k (m : Mix α Ob) : Nat := m.comps.length

/-- mixture.rs:201-231 `Mixture::combine`.
    `n` counts the inputs with `k() != 0` (:206-209); all empty ⇒ the empty mixture (:211-214); otherwise every
    weight is divided by `n` — NOT by the number of inputs — (:216, :224) and the (weight, component) pairs of each
    input are taken by `zip`, i.e. truncated to the shorter of the two vectors (:222). -/
def combine (mixtures : List (Mix α Ob)) : Mix α Ob :=
  let n : Nat := (mixtures.map (fun mm => if k mm == 0 then 0 else 1)).foldl (· + ·) 0
  if n == 0 then newUnchecked [] []
  else
    let nf : α := ofNatR n
    let pairs := mixtures.flatMap (fun mm => mm.weights.zip mm.comps)
    newUnchecked (pairs.map (fun p => p.1 / nf)) (pairs.map (fun p => p.2))

/-- mixture.rs:297-313 `Mixture::set_weights` (`&mut self` ↦ the new mixture; on error the caller keeps `m`) -/
def setWeights (m : Mix α Ob) (weights : List α) : Except (Err α) (Mix α Ob) :=
  if weights.length != m.comps.length then                                        -- :301-306
    .error (Err.mk "ComponentWeightLengthMismatch" [ofNatR weights.length, ofNatR m.comps.length])
  else
    match validateWeights weights with                                            -- :308
    | .error e => .error e
    | .ok _ => .ok { m with weights := weights }                                  -- :310-312

/-- mixture.rs:348-361 `Mixture::set_components`: the new length is compared with the OLD NUMBER OF COMPONENTS;
    the error payload reports `self.weights.len()` -/
def setComponents (m : Mix α Ob) (components : List (Comp α Ob)) : Except (Err α) (Mix α Ob) :=
  if components.length != m.comps.length then
    .error (Err.mk "ComponentWeightLengthMismatch" [ofNatR m.weights.length, ofNatR components.length])
  else .ok { m with comps := components }

/-- mixture.rs:369-386 `TryFrom<Vec<(f64, Fx)>>` -/
def tryFromPairs (wc : List (α × Comp α Ob)) : Except (Err α) (Mix α Ob) :=
  new (wc.map (fun p => p.1)) (wc.map (fun p => p.2))

/-- mixture.rs:388-392 `From<Mixture<Fx>> for Vec<(f64, Fx)>` -/
def toPairs (m : Mix α Ob) : List (α × Comp α Ob) := m.weights.zip m.comps

/-- mixture.rs:162-165 `ln_weights()` -/
def lnWeights (m : Mix α Ob) : List α := m.weights.map RealLike.ln

/-- the terms `ln wₖ + ln fₖ(x)` fed to `logsumexp`, mixture.rs:399-402 -/
def lnTerms (m : Mix α Ob) (x : Ob) : List α :=
  ((lnWeights m).zip m.comps).map (fun p => p.1 + p.2.lnF x)

/-- mixture.rs:398-404 `HasDensity::ln_f` -/
def lnF (m : Mix α Ob) (x : Ob) : α := Gen.logsumexp (lnTerms m x)

/-- mixture.rs:406-411 `HasDensity::f`: `fold(0.0, |acc, (w, c)| c.f(x).mul_add(w, acc))` -/
def f (m : Mix α Ob) (x : Ob) : α :=
  (m.weights.zip m.comps).foldl (fun acc p => mulAdd (p.2.f x) p.1 acc) (0.0 : α)

/-- mixture.rs:446-451 `Cdf::cdf` -/
def cdf (m : Mix α Ob) (x : Ob) : α :=
  (m.weights.zip m.comps).foldl (fun acc p => mulAdd (p.2.cdf x) p.1 acc) (0.0 : α)

/-- mixture.rs:458-469 `ContinuousDistr::pdf` = mixture.rs:480-491 `DiscreteDistr::pmf` (same body):
    components that do not support `x` are skipped -/
def pdf (m : Mix α Ob) (x : Ob) : α :=
  (m.weights.zip m.comps).foldl
    (fun acc p => if p.2.supports x then mulAdd p.1 (p.2.f x) acc else acc) (0.0 : α)

/-- mixture.rs:471-473 `ln_pdf` = :493-495 `ln_pmf` -/
def lnPdf (m : Mix α Ob) (x : Ob) : α := RealLike.ln (pdf m x)

/-- mixture.rs:504-513 `Mean<f64>::mean`: `try_fold`, `None` at the first component without a mean -/
def mean (m : Mix α Ob) : Option α :=
  tryFoldO (fun grand p => p.2.mean.map (fun mu => mulAdd p.1 mu grand)) (0.0 : α) (m.weights.zip m.comps)

/-- state of the loop of `variance`: `(p1, p2, p3)` -/
def varStep (st : α × α × α) (p : α × Comp α Ob) : Option (α × α × α) :=
  match p.2.mean with                                                             -- :527-534
  | none => none
  | some mf =>
    let p1 := st.1 + p.1 * mf * mf
    let p3 := st.2.2 + p.1 * mf
    match p.2.variance with                                                       -- :535-538
    | none => none
    | some v => some (p1, st.2.1 + p.1 * v, p3)

/-- mixture.rs:521-542 `Variance<f64>::variance`: `p3.mul_add(-p3, p1 + p2)` -/
def variance (m : Mix α Ob) : Option α :=
  (tryFoldO varStep ((0.0 : α), (0.0 : α), (0.0 : α)) (m.weights.zip m.comps)).map
    (fun st => mulAdd st.2.2 (-st.2.2) (st.1 + st.2.1))

/-- mixture.rs:437-439 `Support::supports` -/
def supports (m : Mix α Ob) (x : Ob) : Bool := m.comps.any (fun c => c.supports x)

/-- the component index chosen by `draw` (mixture.rs:418-421): `pflips(&self.weights, 1, rng)[0]`,
    func.rs:233-252, as a function of the uniform variate `u = rng.sample(Uniform::new(0.0, 1.0))`.
    `none` = a panic (`assert!(!weights.is_empty())` func.rs:234, or "Could not draw from" func.rs:247). -/
def drawIndex (m : Mix α Ob) (u : α) : Option Nat :=
  if m.weights.isEmpty then none
  else
    let cws := Gen.cumsum m.weights                                               -- func.rs:236
    let scale := cws.getLastD RealLike.nan                                        -- func.rs:237
    Gen.catflip cws (u * scale)                                                   -- func.rs:242-243

/-- `rng.sample(Uniform::new(0.0, 1.0))` as a function of the 64-bit generator word (rand-0.8.5 `uniform.rs`:
    `UniformFloat::new` gives `scale = high - low = 1.0` (the shrink loop does not fire: `1·(1-2⁻⁵²) + 0 < 1`);
    `sample`: `value1_2 = from_bits((next_u64() >> 12) | 1023 << 52)`, result
    `(value1_2 - 1.0) * scale + low = (word >> 12) / 2⁵²` exactly) -/
def uniform01 (word : Nat) : α := ofNatR (word >>> 12) / ofNatR (2 ^ 52)

/-- `draw`: `components[k]` of the chosen index (`none` = panic) -/
def drawComp (m : Mix α Ob) (u : α) : Option (Comp α Ob) :=
  match drawIndex m u with
  | none => none
  | some i => m.comps[i]?

/-! ## concrete component families (generated definitions packaged as `Comp`) -/

/-- `Fx = Gaussian` observed at `f64` -/
def gaussComp (g : Gen.Gaussian α) : Comp α α :=
  { lnF := Gen.Gaussian.ln_f_real g, f := Gen.Gaussian.f_real g, cdf := Gen.Gaussian.cdf_real g,
    mean := Gen.Gaussian.mean_real g, variance := Gen.Gaussian.variance_real g,
    supports := Gen.Gaussian.supports_real g }

/-- `Fx = Poisson` observed at `u32` -/
def poisComp (p : Gen.Poisson α) : Comp α Nat :=
  { lnF := Gen.Poisson.ln_f_nat p, f := Gen.Poisson.f_nat p, cdf := Gen.Poisson.cdf_nat p,
    mean := Gen.Poisson.mean_real p, variance := Gen.Poisson.variance_real p,
    supports := Gen.Poisson.supports_nat p }

/-- `Fx = Bernoulli` observed at `bool` -/
def bernComp (b : Gen.Bernoulli α) : Comp α Bool :=
  { lnF := Gen.Bernoulli.ln_f_bool b, f := Gen.Bernoulli.f_bool b, cdf := Gen.Bernoulli.cdf_bool b,
    mean := Gen.Bernoulli.mean_real b, variance := Gen.Bernoulli.variance_real b,
    supports := Gen.Bernoulli.supports_bool b }

/-- `Fx = Pareto` observed at `f64`: support `[scale, ∞)` depends on the parameter, and `ln_f` is NOT `-inf` below
    the scale (pareto.rs:211-219 evaluates the formula everywhere) — the family that separates `pdf` from `f` -/
def paretoComp (p : Gen.Pareto α) : Comp α α :=
  { lnF := Gen.Pareto.ln_f_real p, f := Gen.Pareto.f_real p, cdf := Gen.Pareto.cdf_real p,
    mean := Gen.Pareto.mean_real p, variance := Gen.Pareto.variance_real p,
    supports := Gen.Pareto.supports_real p }

/-- `Fx = Uniform` observed at `f64`: support `[a, b]` -/
def unifComp (u : Gen.Uniform α) : Comp α α :=
  { lnF := Gen.Uniform.ln_f_real u, f := Gen.Uniform.f_real u, cdf := Gen.Uniform.cdf_real u,
    mean := Gen.Uniform.mean_real u, variance := Gen.Uniform.variance_real u,
    supports := Gen.Uniform.supports_real u }

/-- `Fx = Categorical` observed at `usize`: support `{0, …, k-1}`; `ln_f` outside the support indexes out of bounds
    (a panic in Rust, NaN in the generated model) — only `pmf`, `ln_pmf`, `supports` are total.  No `Mean<f64>`. -/
def catComp (c : Gen.Categorical α) : Comp α Nat :=
  { lnF := Gen.Categorical.ln_f_nat c, f := Gen.Categorical.f_nat c, cdf := Gen.Categorical.cdf_nat c,
    mean := none, variance := none, supports := Gen.Categorical.supports_nat c }

/-- a component known by its moments only (for `mean` / `variance`, which call nothing else) -/
def momentComp (mean variance : Option α) : Comp α Unit :=
  { lnF := fun _ => nan, f := fun _ => nan, cdf := fun _ => nan, mean := mean, variance := variance,
    supports := fun _ => true }

/-! ## `Entropy for Mixture<Gaussian>`: quadrature of `-f ln f` (mixture.rs:799-915) -/

/-- what the quadrature entropy needs from a continuous component besides `Comp`: `Mode<f64>::mode`,
    `QuadBounds::quad_bounds` -/
structure QComp (α : Type) where
  comp : Comp α α
  mode : Option α
  qlo : α
  qhi : α

/-- mixture.rs:812-843 `continuous_mixture_quad_points`: the `filter_map` with the mutable `state`, as a fold.
    Input: `(mode, std = variance.map(sqrt))` of the components of the mode-sorted mixture, in order.
    A mode is kept when it is farther from the last kept mode than the SMALLER of the two standard deviations
    (mixture.rs:825-827, `s1.unwrap_or(INFINITY).min(s2.unwrap_or(INFINITY))`). -/
def quadPoints (ms : List (Option α × Option α)) : List α :=
  (ms.foldl (fun (acc : (Option α × Option α) × List α) (c : Option α × Option α) =>
      match acc.1.1, c.1 with
      | some m1, some m2 =>                                                        -- :824-834
        if RealLike.gt (m2 - m1) (RealLike.min (acc.1.2.getD posInf) (c.2.getD posInf))
        then (c, acc.2 ++ [m2]) else acc
      | none, some m2 => (c, acc.2 ++ [m2])                                        -- :835-838
      | _, none => acc)                                                            -- :839
    ((none, none), [])).2

/-- mixture.rs:799-810 `sort_mixture_by_mode`: stable sort of the (weight, component) pairs by mode
    (`partial_cmp`, `None < Some`; NaN modes are outside the model), then `Mixture::try_from(..).unwrap()` -/
def sortByMode (ps : List (α × QComp α)) : List (α × QComp α) :=
  ps.mergeSort (fun a b => RealLike.le (a.2.mode.getD negInf) (b.2.mode.getD negInf))

/-- mixture.rs:846-895 `cm_quad`: 16-point Gauss–Legendre on `[lower, p₀]`, between consecutive break points and
    on `[p_last, upper]`; `none` = the panic of `points.len() - 1` / `points[0]` on an empty point list -/
def cmQuad (g : α → α) (lower upper : α) (points : List α) : Option α :=
  match points with
  | [] => none
  | p0 :: rest =>
    let t := Hand.Legendre.glTableG (α := α) 16                                    -- :854-855
    let q := fun (a b : α) => Hand.Legendre.glQuadCachedG g a b t.1 t.2
    let qa := q lower p0                                                           -- :865-870
    let qb := q ((p0 :: rest).getLastD p0) upper                                   -- :871-876
    let qm := sumL (((p0 :: rest).zip rest).map (fun ab => q ab.1 ab.2))            -- :878-892
    some (qa + qm + qb)                                                            -- :894

/-- mixture.rs:776-797 `dual_step_quad_bounds!`: start from the mean, widen by every component's bounds -/
def quadBounds (weights : List α) (cs : List (QComp α)) : Option (α × α) :=
  match mean (⟨weights, cs.map (·.comp)⟩ : Mix α α) with
  | none => none                                                                   -- `self.mean().unwrap()`
  | some center =>
    some (cs.foldl (fun (lr : α × α) c =>
      (if RealLike.lt c.qlo lr.1 then c.qlo else lr.1, if RealLike.gt c.qhi lr.2 then c.qhi else lr.2))
      (center, center))

/-- mixture.rs:898-915 `quadrature_entropy!`: `-cm_quad(|x| ln_f(x).exp() * ln_f(x), self)`; `none` = a panic
    (`mean().unwrap()`, `try_from(..).unwrap()` on invalid weights, empty point list).  The integration bounds are a
    parameter so that the correspondence run can feed the implementation's `quad_bounds()` (they go through
    `erf_inv` at `±(1 − 1e-12)`, where two implementations agree to ~1e-7 only; the Gauss–Legendre sum is sensitive
    to the end points when a narrow component sits next to them) -/
def entropyQuadB (weights : List α) (cs : List (QComp α)) (bounds : Option (α × α)) : Option α :=
  let m : Mix α α := ⟨weights, cs.map (·.comp)⟩
  let g := fun x => let l := lnF m x; RealLike.exp l * l
  match bounds with
  | none => none
  | some (lower, upper) =>
    let sorted := sortByMode (weights.zip cs)                                      -- :860 (on a clone)
    match new (sorted.map (·.1)) (sorted.map (·.2.comp)) with                      -- :809 `try_from(..).unwrap()`
    | .error _ => none
    | .ok _ =>
      let pts := quadPoints (sorted.map (fun p => (p.2.mode, p.2.comp.variance.map RealLike.sqrt)))
      (cmQuad g lower upper pts).map (fun v => -v)

/-- the entropy with the mixture's own `quad_bounds()` -/
def entropyQuad (weights : List α) (cs : List (QComp α)) : Option α :=
  entropyQuadB weights cs (quadBounds weights cs)

/-- `Fx = Gaussian` with its mode and `quad_bounds = interval(0.999_999_999_999)` (gaussian.rs:403-407) -/
def gaussQComp (g : Gen.Gaussian α) : QComp α :=
  let b := Gen.Gaussian.interval_real g (0.999999999999 : α)
  { comp := gaussComp g, mode := Gen.Gaussian.mode_real g, qlo := b.1, qhi := b.2 }

/-! ## entropies of discrete mixtures (mixture.rs:696-774, misc/entropy.rs:3-46) -/

/-- misc/entropy.rs:3-36 `count_entropy_range(fx, mid, lower, upper)`: `-Σ f ln f` enumerated downwards from `mid` until
    `left == 0 || (left <= lower && f < 1e-16)` and upwards from `mid + 1` until `right >= upper && f < 1e-16`.
    The two loops are `Hand.C08.leftLoop` / `rightLoop` (Hand/C08Extra.lean, the single-Poisson model); fuel: the left loop
    makes at most `mid + 1` steps, the right loop is given `upper + 100000` steps. -/
def countEntropyRange (lnF : Nat → α) (mid lower upper : Nat) : α :=
  let h := Hand.C08.leftLoop lnF lower (mid + 2) mid (0.0 : α)
  Hand.C08.rightLoop lnF upper (upper + 100000) (mid + 1) h

/-- `x as u32` of a float: truncation, saturation at `u32::MAX`, NaN ↦ 0 -/
def asU32 (x : α) : Nat := satNat 32 (RealLike.toNat x)

/-- mixture.rs:729-772 `countmix_entropy!` (`Mixture<Poisson>`): one component ⇒ `count_entropy(self, mean as u32)`
    (= range `mid, mid, mid + 1`); otherwise the sweep covers `[min mean, max mean]` of the component means
    (:740-761) and starts at their midpoint (:762-767).  `none` = a panic (`components[0]`, `mean().unwrap()`). -/
def countMixEntropy (m : Mix α Nat) : Option α :=
  let lnf := fun x => lnF m x
  if k m == 1 then                                                                 -- :734-738
    (mean m).map (fun mu => let mid := asU32 mu; countEntropyRange lnf mid mid (mid + 1))
  else
    match m.comps with
    | c0 :: c1 :: _ =>
      match c0.mean, c1.mean with
      | some a0, some b0 =>
        let mm := if RealLike.gt a0 b0 then (b0, a0) else (a0, b0)                 -- :741-746
        let lu := m.comps.foldl (fun (acc : Option (α × α)) c =>                   -- :748-761
          match acc, c.mean with
          | some (lower, upper), some mu =>
            if RealLike.gt mu upper then some (lower, mu)
            else if RealLike.lt mu lower then some (mu, upper) else some (lower, upper)
          | _, _ => none) (some mm)
        lu.map (fun (lower, upper) =>
          countEntropyRange lnf (asU32 ((lower + upper) / (2.0 : α))) (asU32 lower) (asU32 upper))
      | _, _ => none
    | _ => none

/-- mixture.rs:696-711 `bernmix_entropy!` (`Mixture<Bernoulli>`):
    `-ln_f(true).exp().mul_add(ln_f(true), ln_f(false).exp() * ln_f(false))` = `−Σ f ln f`
    (the minus sign was missing in the pinned source: repaired by a `fix:` commit) -/
def bernMixEntropy (m : Mix α Bool) : α :=
  let lt := lnF m true
  let lf := lnF m false
  Neg.neg (mulAdd (RealLike.exp lt) lt (RealLike.exp lf * lf))

/-- mixture.rs:713-727 `catmix_entropy!` (`Mixture<Categorical>`): `-Σ_{x < k₀} f ln f`, `k₀` = number of categories of
    the FIRST component; `kFirst = none` = the panic of `components()[0]` -/
def catMixEntropy (m : Mix α Nat) (kFirst : Option Nat) : Option α :=
  kFirst.map (fun k0 => (List.range k0).foldl
    (fun acc x => let l := lnF m x; mulAdd (RealLike.exp l) (-l) acc) (0.0 : α))

/-- a component that only carries two numbers (for the structural operations `combine`, `set_components`,
    pair conversion, which never call a component method: they are parametric in `Fx`) -/
def tagComp (a b : α) : Comp α Unit :=
  { lnF := fun _ => a, f := fun _ => b, cdf := fun _ => a, mean := none, variance := none,
    supports := fun _ => true }

end Hand.Mixture
