import RvModel.Hand.Dispatch
import RvModel.Hand.Partition
import RvModel.Hand.Stick
/-
  driver entries of the C19 hand models (same op names and formats as harness/src/manual_c19.rs):
    partition.from_z - L<n> z…                      -> `L<n> z… L<k> counts…` | `E:<Variant>`
    partition.ops    - L<n> z… <m> (append <k> | remove <ix>)*m
                                                    -> `L<m> status… L<n'> z… L<k'> counts…`  (status `U` | `E:<Variant>` | `E:PANIC`)
    crp.draw         - <alpha> <n> L<w> words…      -> `L<n> z… L<k> counts…` | `PANIC`
    stick.model      - L<N> breaks… <m> req*m       -> answers in request order (requests as in `stick.weights`)
-/
namespace HandDispatch
open GenDispatch Wire Hand

def wrP (p : P) : String := wrL wrN p.z ++ " " ++ wrL wrN p.counts

def rdPartOp : Rd P.Op := do
  let t ← Wire.next
  let n ← rdN
  if t == "append" then pure (.append n) else if t == "remove" then pure (.remove n)
  else throw s!"bad partition op {t}"

/-- a request and, for `P n`, the length its answer is truncated to -/
def rdStickReq : Rd (Stick.Req Float × Option Nat) := do
  let t ← Wire.next
  if t == "e" then do let n ← rdN; pure (.ensure n, none)
  else if t == "c" then do let n ← rdN; pure (.ccdf n, none)
  else if t == "w" then do let n ← rdN; pure (.weight n, none)
  else if t == "f" then do let n ← rdN; pure (.weight n, none)
  else if t == "W" then do let n ← rdN; pure (.weights n, none)
  else if t == "P" then do let n ← rdN; pure (.weights n, some n)
  else if t == "n" then pure (.numWeights, none)
  else if t == "s" then do let n ← rdN; pure (.sf n, none)
  else if t == "F" then do let n ← rdN; pure (.cdf n, none)
  else if t == "i" then do let p ← rdF; pure (.invccdf p, none)
  else if t == "I" then do let p ← rdF; pure (.invccdf (1.0 - p), none)
  else if t == "b" then do let p ← rdF; pure (.push p, none)
  else if t == "m" then do
    let ps ← rdL rdF
    match ps with
    | [] => throw "multi_invccdf_sorted on an empty slice is outside the model"
    | p0 :: rest => pure (.multi p0 rest, none)
  else throw s!"bad stick request {t}"

def wrAns (trunc : Option Nat) : Stick.Ans Float → String
  | .unit => "U"
  | .val x => wrF x
  | .vals xs => wrL wrF (match trunc with | some n => xs.take n | none => xs)
  | .nat n => wrN n
  | .nats ns => wrL wrN ns
  | .hang => "HANG"
  | .panic => "PANIC"

def tableC19 : List (String × Rd String) := [
  ("partition.from_z", do
      let _ ← Wire.next
      let z ← rdL rdN
      pure (match P.fromZ z with | .ok p => wrP p | .error e => "E:" ++ e)),
  ("partition.ops", do
      let _ ← Wire.next
      let z ← rdL rdN
      let m ← rdN
      let ops ← rdRep rdPartOp m
      match (if z.isEmpty then (Except.ok P.new : Except String P) else P.fromZ z) with
      | .error e => pure ("E:" ++ e)
      | .ok p =>
        let st := wrL (fun (s : Option String) => match s with | none => "U" | some e => "E:" ++ e) (P.runLog p ops)
        pure (st ++ " " ++ wrP (P.run p ops))),
  ("crp.draw", do
      let _ ← Wire.next
      let alpha ← rdF
      let n ← rdN
      let words ← rdL rdN
      -- the scripted generator repeats its last word (0 when it has none) once exhausted
      let ws := words ++ List.replicate (n - 1 - words.length) (words.getLastD 0)
      pure (match crpDraw alpha n (ws.map (u01 (α := Float))) with | some p => wrP p | none => "PANIC")),
  ("stick.model", do
      let _ ← Wire.next
      let bs ← rdL rdF
      let m ← rdN
      let reqs ← rdRep rdStickReq m
      let breaks : Nat → Float := fun i => bs.getD i RealLike.nan
      let answers := Stick.serveAll breaks bs.length Stick.init (reqs.map Prod.fst)
      pure (String.intercalate " " ((answers.zip (reqs.map Prod.snd)).map (fun (a, t) => wrAns t a))))
]

end HandDispatch
