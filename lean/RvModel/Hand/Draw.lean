import RvModel.Prelude
import RvModel.Gen.Defs
import RvModel.Hand.Samplers
/-!
  RvModel.Hand.Draw — hand models of the HAND-WRITTEN samplers (`Sampleable::draw` / `sample`) of `/repo/src/dist/*.rs`,
  as total functions of the generator words / uniform variates they consume (rs2lean skips every function taking an `Rng`),
  and the argument mapping of the DELEGATING samplers (those that call `rand_distr`), whose internals are opaque.

  Mathlib-free, generic in `[RealLike α]` (runs on `Float` in the driver `rvdrv`, proved about on `R` / `X` in
  Props/C04A.lean).  Tied to the code by the correspondence ops of harness/src/manual_c04.rs (same op names in
  Hand/DispatchC04.lean): the implementation is run with a scripted generator, the model on the same words.

  Sources of the variate maps: `~/.cargo/registry/src/*/rand-0.8.5/src/distributions/{float,uniform}.rs`,
  `rand-0.8.5/src/rng.rs` (`gen_range`), `rand_distr-0.4.3/src/*.rs` (re-exports `Open01`, `OpenClosed01`, `Uniform`).

  Every model that contains a Rust `mul_add` exists in two forms: `fooWith fma …` takes the fused operation as a
  parameter (the driver passes the correctly rounded binary64 fused multiply–add, so that model and implementation
  agree bit for bit), and `foo := fooWith mulAdd` (the unfused `a*b+c`, equal to the fused one over exact arithmetic),
  which is what the theorems are about.
-/

namespace Hand
open RealLike

variable {α : Type} [RealLike α]

/-! ## generator maps: `std01`, `open01`, `uniform01` of Hand/Samplers.lean (`OpenClosed01` — `((w >> 11) + 1) / 2^53`,
    float.rs:120-133 — is no longer used by any sampler of rv after the repair of `Laplace::draw`) -/

/-- the scripted generator of the harness (`wire.rs::Script`): replays `ws`, then repeats the last word for ever
    (`0` for an empty script) -/
def wordAt (ws : List Nat) (i : Nat) : Nat := ws.getD (min i (ws.length - 1)) 0

/-- `Script::next_u32` = high half of the next 64-bit word (as `Xoshiro256Plus::next_u32` does) -/
def hi32 (w : Nat) : Nat := (w % 2 ^ 64) >>> 32

/-- result of running a sampler on a word stream -/
inductive Outcome (β : Type) where
  /-- returned `v` after consuming `consumed` words -/
  | ok (v : β) (consumed : Nat)
  /-- Rust `panic!` / failed `assert!` / `unwrap()` on `None` / index out of bounds -/
  | panic
  /-- the model's fuel ran out (an unbounded loop of the Rust code did not terminate within the fuel) -/
  | hang

/-! ## Bernoulli (dist/bernoulli.rs:231-246) -/

/-- `Bernoulli::draw`, bernoulli.rs:232-236: `x = rng.sample(Open01); X::from_bool(x < self.p)`; `u = open01 word` -/
def bernoulliDraw (d : Gen.Bernoulli α) (u : α) : Bool := lt u d.p

/-- `Bernoulli::sample`, bernoulli.rs:238-246 — a SEPARATE implementation: `(0..n).map(|_| { x = rng.sample(Open01);
    X::from_bool(x < self.p) })`, one word per element, in order -/
def bernoulliSample (d : Gen.Bernoulli α) (us : List α) : List Bool := us.map (fun x => lt x d.p)

/-- `Booleable::from_bool` for the integer kinds (data/mod.rs:104-126): `true ↦ 1`, `false ↦ 0` -/
def boolToNat (b : Bool) : Nat := if b then 1 else 0

/-! ## Laplace (dist/laplace.rs:213-232) -/

/-- `Laplace::draw`, laplace.rs:228-231: `u = rng.sample(rand_distr::Open01)` (`open01 word`; before the repair 703a0fb it
    was `OpenClosed01`, whose variate `1` gave an infinite draw); `self.b.mul_add(-laplace_partial_draw(u), self.mu)`.
    `laplace_partial_draw` (laplace.rs:213-217) is generated (`Gen.laplace_partial_draw`; its inner `2.0.mul_add(-|r|, 1.0)`
    is exact in binary64 fused or not: `2|r|` is exact). -/
def laplaceDrawWith (fma : α → α → α → α) (d : Gen.Laplace α) (u : α) : α :=
  fma d.b (-(Gen.laplace_partial_draw u)) d.mu

def laplaceDraw (d : Gen.Laplace α) (u : α) : α := laplaceDrawWith mulAdd d u

/-! ## Gev (dist/gev.rs:286-299) -/

/-- `Gev::draw`, gev.rs:287-298: `u = rng.sample(Open01); lnu = -u.ln();`
    `shape == 0.0`: `scale.mul_add(-lnu.ln(), loc)`; else `loc + scale * (lnu.powf(-shape) - 1.0) / shape` -/
def gevDrawWith (fma : α → α → α → α) (d : Gen.Gev α) (u : α) : α :=
  let lnu := -(ln u)
  if feq d.shape (0.0 : α) then fma d.scale (-(ln lnu)) d.loc
  else d.loc + d.scale * (powf lnu (-d.shape) - (1.0 : α)) / d.shape

def gevDraw (d : Gen.Gev α) (u : α) : α := gevDrawWith mulAdd d u

/-! ## Kumaraswamy (dist/kumaraswamy.rs:368-373), UnitPowerLaw (dist/unit_powerlaw.rs:223-232) -/

/-- `Kumaraswamy::draw`, kumaraswamy.rs:369-372: `p = rng.sample(rand_distr::Open01); invcdf(p, self.a, self.b)`;
    `u = open01 word` (before the repair fb54024: `rng.gen::<f64>()`, whose variate `0` gave the unsupported draw `0`) -/
def kumaraswamyDraw (d : Gen.Kumaraswamy α) (u : α) : α := Gen.invcdf u d.a d.b

/-- `UnitPowerLaw::draw`, unit_powerlaw.rs:224-226: `self.invcdf(rng.sample::<f64, _>(rand_distr::Open01))` =
    `p.powf(self.alpha_inv())`; `u = open01 word` (before the repair c9b85ee: `rng.gen::<f64>()`) -/
def unitPowerLawDraw (d : Gen.UnitPowerLaw α) (u : α) : α := Gen.UnitPowerLaw.invcdf_real d u

/-- `UnitPowerLaw::sample`, unit_powerlaw.rs:228-237 — a SEPARATE implementation:
    `alpha_inv = self.alpha_inv(); (0..n).map(|_| rng.sample::<f64, _>(Open01).powf(alpha_inv))` (f64 kind; for `f32` the
    variate is the 23-bit `Open01` of a `next_u32()` — not modelled) -/
def unitPowerLawSample (d : Gen.UnitPowerLaw α) (us : List α) : List α :=
  let alphaInv := Gen.UnitPowerLaw.alpha_inv d
  us.map (fun u => powf u alphaInv)

/-! ## Geometric (dist/geometric.rs:166-199, 234-243) -/

/-- `X::from_f64(v).unwrap_or_else(X::max_value)` for an unsigned kind of `kbits` bits
    (num-traits-0.2 `float_to_uint_impl`: `Some(trunc v)` iff `-1 < v < 2^kbits`, `None` otherwise incl. NaN) -/
def fromF64OrMax (kbits : Nat) (v : α) : Nat :=
  if gt v (-(1.0 : α)) && lt v (ofNatR (2 ^ kbits)) then toNat v else 2 ^ kbits - 1

/-- `Geometric::inversion_draw_method`, geometric.rs:167-177: `u = rng.sample(rand_distr::Open01)` (`open01 word`; before the
    repair ca0686c: rv's `Uniform::new(0,1)`, whose variate `0` gave `X::MAX`);
    `X::from_f64((1.0 - u).log(1.0 - p).ceil() - 1.0).unwrap_or_else(X::max_value)`; `x.log(b) = x.ln() / b.ln()` -/
def geomInversion (kbits : Nat) (p u : α) : Nat :=
  fromF64OrMax kbits (ceil (logb ((1.0 : α) - u) ((1.0 : α) - p)) - (1.0 : α))

/-- the `while u > sum` loop of `Geometric::search_draw_method`, geometric.rs:192-202 (after the repair ca0686c):
    `prod *= q; let next = sum + prod; if next == sum { break; } sum = next; t = t.saturating_add(1)` — the `break` fires when
    the partial sums have stagnated below `u` in binary64; `none` = fuel exhausted -/
def geomSearchLoop (kbits : Nat) (q u : α) : Nat → Nat → α → α → Option Nat
  | 0, _, _, _ => none
  | fuel + 1, t, sum, prod =>
    if gt u sum then
      let prod := prod * q
      let next := sum + prod
      if feq next sum then some t                                                -- `break`
      else geomSearchLoop kbits q u fuel (min (t + 1) (2 ^ kbits - 1)) next prod   -- `t.saturating_add(X::one())`
    else some t

/-- `Geometric::search_draw_method`, geometric.rs:181-204: `u = rng.gen::<f64>()` (= `std01 word`) -/
def geomSearch (kbits : Nat) (fuel : Nat) (p u : α) : Option Nat :=
  geomSearchLoop kbits ((1.0 : α) - p) u fuel 0 p p

/-- `Geometric::draw`, geometric.rs:234-243: `if 3.0 * self.p > 1.0 { search } else { inversion }`; one word either way -/
def geomDraw (kbits fuel : Nat) (d : Gen.Geometric α) (ws : List Nat) : Outcome Nat :=
  if gt ((3.0 : α) * d.p) (1.0 : α) then
    match geomSearch kbits fuel d.p (std01 (wordAt ws 0)) with
    | some t => .ok t 1
    | none => .hang
  else .ok (geomInversion kbits d.p (open01 (wordAt ws 0))) 1

/-! ## DiscreteUniform (dist/discrete_uniform.rs:141-149) through `rand::distributions::Uniform::new_inclusive` -/

/-- `UniformInt<T>` (uniform.rs:458-504) for an integer type `T` of `tbits` bits whose "large" unsigned type has `lbits`
    bits (`u32` for 8/16/32-bit `T`, `u64` for 64-bit `T` and `usize/isize`):
    `range = (high - low + 1) mod 2^tbits`; `ints_to_reject = (2^lbits - range) % range`; `zone = 2^lbits - 1 - ints_to_reject`;
    `loop { v = rng.gen::<u_large>(); (hi, lo) = v.wmul(range); if lo <= zone { return low + hi } }`.
    `range = 0` (the whole type): `rng.gen::<T>()` = the low `tbits` bits of `next_u32()` / `next_u64()`.
    `v` = `next_u32()` = high half of the word for `lbits = 32`, the whole word for `lbits = 64`.
    Returns the value as an `Int` and the index of the next unread word. -/
def uniformIntLoop (lbits : Nat) (low : Int) (range zone : Nat) (ws : List Nat) : Nat → Nat → Outcome Int
  | 0, _ => .hang
  | fuel + 1, i =>
    let w := wordAt ws i
    let v := if lbits = 32 then hi32 w else w % 2 ^ 64
    let m := v * range
    let hi := m / 2 ^ lbits
    let lo := m % 2 ^ lbits
    if lo ≤ zone then .ok (low + (hi : Int)) (i + 1) else uniformIntLoop lbits low range zone ws fuel (i + 1)

def largeBits (tbits : Nat) : Nat := if tbits ≤ 32 then 32 else 64

/-- one value of `Uniform::new_inclusive(low, high)` for a type of `tbits` bits (`signed` selects the two's-complement
    reading of the full-range case), starting at word `i`; `low > high` is the failed `assert!` of uniform.rs:465 -/
def uniformIntDraw (tbits : Nat) (signed : Bool) (fuel : Nat) (low high : Int) (ws : List Nat) (i : Nat) : Outcome Int :=
  if low > high then .panic
  else
    let lbits := largeBits tbits
    let range := ((high - low + 1) % (2 ^ tbits : Int)).toNat
    if range = 0 then
      let w := wordAt ws i
      let v := if lbits = 32 then hi32 w else w % 2 ^ 64
      .ok (if signed then wrapInt tbits (v : Int) else (wrapNat tbits v : Int)) (i + 1)
    else
      let z := (2 ^ lbits - range) % range
      uniformIntLoop lbits low range (2 ^ lbits - 1 - z) ws fuel i

/-- `DiscreteUniform::draw`, discrete_uniform.rs:141-144: `X::from(rng.sample(Uniform::new_inclusive(self.a, self.b)))` -/
def discreteUniformDraw (tbits : Nat) (signed : Bool) (fuel : Nat) (d : Gen.DiscreteUniform α) (ws : List Nat) :
    Outcome Int :=
  uniformIntDraw tbits signed fuel d.a d.b ws 0

/-- thread a per-element sampler over the word stream `n` times (`rng.sample_iter(&d).take(n)` / `(0..n).map(…)`) -/
def iterDraws {β : Type} (step : Nat → Outcome β) : Nat → Nat → Outcome (List β)
  | 0, i => .ok [] i
  | n + 1, i =>
    match step i with
    | .ok x j =>
      match iterDraws step n j with
      | .ok xs k => .ok (x :: xs) k
      | .panic => .panic
      | .hang => .hang
    | .panic => .panic
    | .hang => .hang

/-- `DiscreteUniform::sample`, discrete_uniform.rs:146-149 — a SEPARATE implementation:
    `rng.sample_iter(&d).take(n).map(X::from)`: the same `UniformInt::sample` per element, threaded over the stream -/
def discreteUniformSample (tbits : Nat) (signed : Bool) (fuel : Nat) (d : Gen.DiscreteUniform α) (n : Nat)
    (ws : List Nat) : Outcome (List Int) :=
  iterDraws (uniformIntDraw tbits signed fuel d.a d.b ws) n 0

/-! ## Uniform (dist/uniform.rs:196-204) through `rand_distr::Uniform::new(a, b)` -/

/-- `Uniform::draw`: `rng.sample(rand_distr::Uniform::new(self.a, self.b))`; uniform.rs(rand):823-857 `new`:
    `scale = high - low`, then a loop that lowers `scale` by one ulp while `scale * (1 - 2⁻⁵²) + low >= high`
    (bit-level `decrease_masked`: a no-op over exact arithmetic, it fires only by rounding — the scale computation is the
    parameter `scaleOf`; the driver passes the bit-level loop, the theorems use `high - low`);
    uniform.rs(rand):896-911 `sample`: `value0_1 * scale + low` with `value0_1 = uniform01 word` (two roundings, not fused).
    `low >= high` or a non-finite bound / range is a failed `assert!` (`none`). -/
def uniformDrawWith (scaleOf : α → α → α) (d : Gen.Uniform α) (u : α) : Option α :=
  if lt d.a d.b && isFinite d.a && isFinite d.b && isFinite (d.b - d.a) then some (u * scaleOf d.a d.b + d.a) else none

def uniformDraw (d : Gen.Uniform α) (u : α) : Option α := uniformDrawWith (fun lo hi => hi - lo) d u

/-! ## Categorical (dist/categorical.rs:215-226), Mixture (dist/mixture.rs:418-430): index draws of C13 -/

/-- `Categorical::draw`: `ln_pflips(&self.ln_weights, 1, true, rng)[0]`; `u = open01 word`; `none` = the `panic!` of `ln_pflips` -/
def categoricalDraw (d : Gen.Categorical α) (u : α) : Option Nat :=
  match lnPflips d.ln_weights true [u] with
  | [r] => r
  | _ => none

/-- `Categorical::sample`: `ln_pflips(&self.ln_weights, n, true, rng)` — the cumulative weights are computed once -/
def categoricalSample (d : Gen.Categorical α) (us : List α) : Option (List Nat) :=
  lnPflipsAll d.ln_weights true us

/-- `Mixture::<Laplace>::draw`, mixture.rs:418-421: `k = pflips(&self.weights, 1, rng)[0]` (word 0, `uniform01`);
    `self.components[k].draw(rng)` (word 1, `open01`).  `none` = panic of `pflips` or index out of bounds. -/
def mixtureLaplaceDrawWith (fma : α → α → α → α) (weights : List α) (comps : List (Gen.Laplace α)) (w0 w1 : Nat) :
    Option α :=
  match pflips1 weights (uniform01 w0) with
  | none => none
  | some k =>
    match comps[k]? with
    | none => none
    | some c => some (laplaceDrawWith fma c (open01 w1))

/-- `Mixture::<Laplace>::sample`, mixture.rs:423-429 — a SEPARATE implementation with a DIFFERENT use of the stream:
    `pflips(&self.weights, n, rng)` reads the first `n` words (all component indices), then the component draws read the
    next `n` words in order.  (`draw` called `n` times interleaves index and component words.) -/
def mixtureLaplaceSampleWith (fma : α → α → α → α) (weights : List α) (comps : List (Gen.Laplace α)) (n : Nat)
    (ws : List Nat) : Option (List α) :=
  match pflipsAll weights ((List.range n).map (fun i => uniform01 (wordAt ws i))) with
  | none => none
  | some ks =>
    collect ((enumL ks).map (fun (j, k) =>
      match comps[k]? with
      | none => none
      | some c => some (laplaceDrawWith fma c (open01 (wordAt ws (n + j))))))

/-! ## InvGaussian (dist/invgaussian.rs:267-291): transform of a standard normal `v` and a uniform `z` -/

/-- `InvGaussian::draw`: `v = rng.sample(Normal(0,1))` (opaque: ziggurat of rand_distr), `z = rng.gen::<f64>()` (`std01`);
    `y = v²; x = 0.5.mul_add((mu/λ).mul_add(-((4 mu λ).mul_add(y, mu² y y)).sqrt(), mu² y / λ), mu)`;
    `if z <= mu / (mu + x) { x } else { mu² / x }` -/
def invGaussianDrawWith (fma : α → α → α → α) (d : Gen.InvGaussian α) (v z : α) : α :=
  let mu := d.mu
  let lam := d.lambda'
  let y := v * v
  let mu2 := mu * mu
  let x := fma (0.5 : α)
    (fma (mu / lam) (-(sqrt (fma ((4.0 : α) * mu * lam) y (mu2 * y * y)))) (mu2 * y / lam)) mu
  if le z (mu / (mu + x)) then x else mu2 / x

def invGaussianDraw (d : Gen.InvGaussian α) (v z : α) : α := invGaussianDrawWith mulAdd d v z

/-! ## VonMises (dist/vonmises.rs:257-287): Best–Fisher rejection loop -/

/-- constants of the loop, vonmises.rs:259-261: `tau = 1 + sqrt(4k² + 1)`, `rho = (tau − sqrt(2 tau)) / (2k)` (Best & Fisher
    1979; before the repair 29e267e the code had the product `tau * sqrt(2 tau)`, which made the loop practically endless for
    `k ≥ 9`), `r = (1 + rho²) / (2 rho)` (`= tau / (2k)` over exact arithmetic, `C04.vonMisesR_closed`). -/
def vonMisesRWith (fma : α → α → α → α) (k : α) : α :=
  let tau := (1.0 : α) + sqrt (fma (4.0 : α) (k * k) (1.0 : α))
  let rho := (tau - sqrt ((2.0 : α) * tau)) / ((2.0 : α) * k)
  fma rho rho (1.0 : α) / ((2.0 : α) * rho)

/-- one pass of the loop body given `u1 u2 u3` (all `Open01`): `some (some x)` = accepted and returned `x`,
    `some none` = accepted but `panic!("VonMises does not support …")`, `none` = rejected (`u3` not consumed) -/
def vonMisesStepWith (fma : α → α → α → α) (d : Gen.VonMises α) (r u1 u2 u3 : α) : Option (Option α) :=
  let z := cos ((pi : α) * u1)
  let f := fma r z (1.0 : α) / (r + z)
  let c := d.k * (r - f)
  if ge (fma c ((2.0 : α) - c) (-u2)) (0.0 : α) || ge (ln (c / u2) + (1.0 : α) - c) (0.0 : α) then
    let y := fma (signum (u3 - (0.5 : α))) (acos f) d.mu
    let x := remEuclid y ((2.0 : α) * (pi : α))
    if Gen.VonMises.supports_real d x then some (some x) else some none
  else none

def vonMisesLoopWith (fma : α → α → α → α) (d : Gen.VonMises α) (r : α) (ws : List Nat) : Nat → Nat → Outcome α
  | 0, _ => .hang
  | fuel + 1, i =>
    match vonMisesStepWith fma d r (open01 (wordAt ws i)) (open01 (wordAt ws (i + 1))) (open01 (wordAt ws (i + 2))) with
    | some (some x) => .ok x (i + 3)
    | some none => .panic
    | none => vonMisesLoopWith fma d r ws fuel (i + 2)

/-- `VonMises::draw` from word `i` on -/
def vonMisesDrawWith (fma : α → α → α → α) (fuel : Nat) (d : Gen.VonMises α) (ws : List Nat) (i : Nat) : Outcome α :=
  vonMisesLoopWith fma d (vonMisesRWith fma d.k) ws fuel i

def vonMisesDraw (fuel : Nat) (d : Gen.VonMises α) (ws : List Nat) (i : Nat) : Outcome α :=
  vonMisesDrawWith mulAdd fuel d ws i

/-! ## Empirical (dist/empirical.rs:171-177) through `rng.gen_range(0..n)` -/

/-- `gen_range(0..n)` for `usize` = `UniformInt::<usize>::sample_single(0, n)` (uniform.rs:507-554): `n = 0` fails the
    `assert!`; `range = n; zone = (range << range.leading_zeros()) - 1` (64-bit); same widening-multiply loop -/
def genRangeUsize (fuel : Nat) (n : Nat) (ws : List Nat) (i : Nat) : Outcome Int :=
  if n = 0 then .panic
  else
    let lz := 63 - Nat.log2 n
    uniformIntLoop 64 0 n (n * 2 ^ lz - 1) ws fuel i

/-- `Empirical::draw`: `self.xs[rng.gen_range(0..self.xs.len())]` (`xs` sorted by `Empirical::new`) -/
def empiricalDraw (fuel : Nat) (xs : List α) (ws : List Nat) : Outcome α :=
  match genRangeUsize fuel xs.length ws 0 with
  | .ok ix c => .ok (xs.getD ix.toNat nan) c
  | .panic => .panic
  | .hang => .hang

/-! ## ConjugateModel (src/model.rs:121-141) -/

/-- `ConjugateModel::draw`, model.rs:126-130: `post = self.posterior(); fx = post.draw(rng); fx.draw(rng)`.
    `postDraw i` = the posterior's `draw` started at word `i` (a `rand_distr` sampler for every prior of rv: opaque),
    `likDraw fx j` = the likelihood's `draw` started at word `j`. -/
def conjugateDraw {θ β : Type} (postDraw : Nat → Outcome θ) (likDraw : θ → Nat → Outcome β) (i : Nat) : Outcome β :=
  match postDraw i with
  | .ok fx j => likDraw fx j
  | .panic => .panic
  | .hang => .hang

/-- `ConjugateModel::sample`, model.rs:132-140 — a SEPARATE implementation:
    `post = self.posterior(); (0..n).map(|_| { fx = post.draw(rng); fx.draw(rng) })`: a FRESH likelihood per element -/
def conjugateSample {θ β : Type} (postDraw : Nat → Outcome θ) (likDraw : θ → Nat → Outcome β) (n : Nat) : Outcome (List β) :=
  iterDraws (fun i =>
    match postDraw i with
    | .ok fx j => likDraw fx j
    | .panic => .panic
    | .hang => .hang) n 0

/-- the Bernoulli likelihood draw of a drawn parameter `p` as an `Outcome` (one `Open01` word) -/
def bernoulliLik (ws : List Nat) (p : α) (j : Nat) : Outcome Bool :=
  .ok (bernoulliDraw ⟨p⟩ (open01 (wordAt ws j))) (j + 1)

/-! ## Delegating samplers: the `rand_distr-0.4.3` constructor call and the argument mapping

  For these `draw` only re-parameterises; the sampler itself (`rand_distr`) is opaque.  `RDCall.args` are the constructor
  arguments in the order of the constructor, `post` names the transformation applied to the variate.

  | rv `draw`                              | call                                                              | Rust lines |
  |----------------------------------------|-------------------------------------------------------------------|------------|
  | Gaussian(mu, sigma)                    | `Normal::new(mu, sigma)`  (mean, std_dev)                         | gaussian.rs:286-289 |
  | LogNormal(mu, sigma)                   | `LogNormal::new(mu, sigma)`  (mean, std_dev of the logarithm)     | lognormal.rs:237-241 |
  | Cauchy(loc, scale)                     | `Cauchy::new(loc, scale)`  (median, scale)                        | cauchy.rs:226-229 |
  | Exponential(rate)                      | `Exp::new(rate)`  (lambda)                                        | exponential.rs:165-168 |
  | Gamma(shape, rate)                     | `Gamma::new(shape, 1.0 / rate)`  (shape, SCALE)                   | gamma.rs:263-267 |
  | InvGamma(shape, scale)                 | `1.0 / Gamma::new(shape, scale.recip())`                          | invgamma.rs:239-243 |
  | ChiSquared(k)                          | `ChiSquared::new(k)`                                              | chi_squared.rs:152-155 |
  | InvChiSquared(v)                       | `ChiSquared::new(v)` then `.recip()`                              | inv_chi_squared.rs:176-180 |
  | ScaledInvChiSquared(v, t2)             | `InvGamma::new_unchecked(0.5 * v, 0.5 * v * t2).draw`             | scaled_inv_chi_squared.rs:267-272 |
  | StudentsT(v)                           | `StudentT::new(v)`                                                | students_t.rs:149-152 |
  | Beta(alpha, beta)                      | `Beta::new(alpha, beta)`                                          | beta.rs:326-329 |
  | Pareto(shape, scale)                   | `Pareto::new(scale, shape)`  (SCALE first)                        | pareto.rs:222-226 |
  | Poisson(rate)                          | `Poisson::new(rate)` (f64 variate) `as u64 as kind`               | poisson.rs:208-212 |
  | Binomial(n, p)                         | `Binomial::new(n, p)` `as kind`                                   | binomial.rs:280-283 |
  | NegBinomial(r, p)                      | `Poisson(λ).draw`, `λ = Gamma::new(r, (1-p) / (1 - (1-p)))`       | neg_binom.rs:244-250 |
  | Skellam(mu_1, mu_2)                    | `Poisson(mu_1).draw::<u32>() as i32 - Poisson(mu_2).draw::<u32>() as i32` | skellam.rs:269-275 |
  | BetaBinomial(n, a, b)                  | `ln_pflips([ln_f(0), …, ln_f(n)], 1, true)` (hand model `lnPflips`)| beta_binom.rs:356-371 |
  | SymmetricDirichlet(alpha, k)           | `k` draws of `Gamma::new(alpha, 1.0)`, divided by their sum       | dirichlet.rs:217-223 |
  | Dirichlet(alphas)                      | one `Gamma::new(alpha_i, 1.0)` draw each, divided by their sum    | dirichlet.rs:420-430 |
  | MvGaussian(mu, cov)                    | `StandardNormal` × dims, `mu + chol(cov) · z`                     | mvg.rs:438-446 |
  | NormalGamma(m, r, s, v)                | `rho = Gamma(v/2, s/2).draw`; `sigma = if rho.is_infinite() {EPSILON} else {rho.recip().sqrt()}`; `mu = Gaussian(m, sigma/sqrt r)` | normal_gamma.rs:344-378 |
  | NormalInvGamma(m, v, a, b)             | `var = InvGamma(a, b).draw`; `sigma = if var <= 0 {EPSILON} else {var.sqrt()}`; `mu = Gaussian(m, sqrt v · sigma)` | normal_inv_gamma.rs:348-372 |
  | NormalInvChiSquared(m, k, v, s2)       | `var = ScaledInvChiSquared(v, s2).draw`; same fall-back; `mu = Gaussian(m, sigma/sqrt k)`; returns `Gaussian::new(mu, var.sqrt())` | normal_inv_chi_squared.rs:398-414 |
  | Exponential / Uniform                  | see `uniformDraw` above for `Uniform`                             | |
-/

/-- a `rand_distr` constructor call: constructor, its arguments in order, the post-transformation of the variate -/
structure RDCall (α : Type) where
  ctor : String
  args : List α
  post : String := "id"

def gaussianCall (d : Gen.Gaussian α) : RDCall α := { ctor := "Normal::new(mean, std_dev)", args := [d.mu, d.sigma] }
def logNormalCall (d : Gen.LogNormal α) : RDCall α := { ctor := "LogNormal::new(mu, sigma)", args := [d.mu, d.sigma] }
def cauchyCall (d : Gen.Cauchy α) : RDCall α := { ctor := "Cauchy::new(median, scale)", args := [d.loc, d.scale] }
def exponentialCall (d : Gen.Exponential α) : RDCall α := { ctor := "Exp::new(lambda)", args := [d.rate] }
/-- gamma.rs:264: `rand_distr::Gamma::new(self.shape, 1.0 / self.rate)` -/
def gammaCall (d : Gen.Gamma α) : RDCall α :=
  { ctor := "Gamma::new(shape, scale)", args := [d.shape, (1.0 : α) / d.rate] }
/-- invgamma.rs:240-242: `1.0 / rng.sample(rand_distr::Gamma::new(self.shape, self.scale.recip()))` -/
def invGammaCall (d : Gen.InvGamma α) : RDCall α :=
  { ctor := "Gamma::new(shape, scale)", args := [d.shape, recip d.scale], post := "recip" }
def chiSquaredCall (d : Gen.ChiSquared α) : RDCall α := { ctor := "ChiSquared::new(k)", args := [d.k] }
def invChiSquaredCall (d : Gen.InvChiSquared α) : RDCall α :=
  { ctor := "ChiSquared::new(k)", args := [d.v], post := "recip" }
/-- scaled_inv_chi_squared.rs:268-271: `InvGamma::new_unchecked(0.5 * self.v, 0.5 * self.v * self.t2).draw(rng)` -/
def scaledInvChiSquaredAsInvGamma (d : Gen.ScaledInvChiSquared α) : Gen.InvGamma α :=
  { shape := (0.5 : α) * d.v, scale := (0.5 : α) * d.v * d.t2 }
def studentsTCall (d : Gen.StudentsT α) : RDCall α := { ctor := "StudentT::new(n)", args := [d.v] }
def betaCall (d : Gen.Beta α) : RDCall α := { ctor := "Beta::new(alpha, beta)", args := [d.alpha, d.beta] }
/-- pareto.rs:223-224: `rand_distr::Pareto::new(self.scale, self.shape)` — scale FIRST -/
def paretoCall (d : Gen.Pareto α) : RDCall α := { ctor := "Pareto::new(scale, shape)", args := [d.scale, d.shape] }
def poissonCall (d : Gen.Poisson α) : RDCall α := { ctor := "Poisson::new(lambda)", args := [d.rate], post := "as u64 as kind" }
/-- neg_binom.rs:245-249: `q = 1 - p; scale = q / (1 - q); Poisson(Gamma::new(r, scale))` -/
def negBinomialGammaCall (d : Gen.NegBinomial α) : RDCall α :=
  let q := (1.0 : α) - d.p
  { ctor := "Gamma::new(shape, scale)", args := [d.r, q / ((1.0 : α) - q)], post := "Poisson::new_unchecked(·).draw" }

/-! ### densities as documented by `rand_distr-0.4.3` (written from its rustdoc, not from rv) -/
namespace RD

/-- `rand_distr::Gamma` rustdoc (gamma.rs:29-32): `f(x) = x^(k-1) · exp(-x/θ) / (Γ(k) · θ^k)`, shape `k`, scale `θ` -/
def gammaPdf (k θ x : α) : α := powf x (k - (1.0 : α)) * exp (-(x / θ)) / (gamma k * powf θ k)

/-- `rand_distr::ChiSquared` rustdoc (gamma.rs:266-272: "the equivalent characterisation `χ²(k) = Gamma(k/2, 2)`"; gamma.rs:349
    `Gamma::new(0.5 * k, 2.0)`): density of that Gamma -/
def chiSquaredPdf (k x : α) : α := gammaPdf (k / (2.0 : α)) (2.0 : α) x

/-- `rand_distr::Exp` rustdoc (exponential.rs:80): `f(x) = lambda * exp(-lambda * x)` -/
def expPdf (lam x : α) : α := lam * exp (-(lam * x))

/-- `rand_distr::Pareto::new(scale, shape)` (pareto.rs:64; the sampler is the inversion `scale * u^(-1/shape)`, `u` OpenClosed01): the
    textbook density `shape · scale^shape / x^(shape+1)` on `x ≥ scale` -/
def paretoPdf (scale shape x : α) : α := shape * powf scale shape / powf x (shape + (1.0 : α))

/-- `rand_distr::Normal::new(mean, std_dev)` (normal.rs:156): density of `N(mean, std_dev²)` -/
def normalPdf (mean sd x : α) : α :=
  exp (-((x - mean) * (x - mean)) / ((2.0 : α) * sd * sd)) / (sd * sqrt ((2.0 : α) * (pi : α)))

/-- density of `1/Y` when `Y` has density `g` on `(0, ∞)`: `g(1/x) / x²` (change of variables) -/
def recipPdf (g : α → α) (x : α) : α := g ((1.0 : α) / x) / (x * x)

end RD

end Hand
