import RvModel.Prelude
import RvModel.Gen.Defs
/-!
  RvModel.Hand.Mardia — hand model of `/repo/src/misc/mardia.rs` (Mardia's multivariate normality test).
  The translator rejects it (`DVector<f64>`).  Mathlib-free, generic in `[RealLike α]`.

  Vectors are `List α`, matrices `List (List α)` (rows).  `cov.try_inverse().unwrap()` (nalgebra 0.32: closed forms for
  dimension ≤ 4, LU with partial pivoting above) is modelled by Gauss–Jordan elimination with partial pivoting: the same
  matrix over exact reals, rounding-level differences on `Float` (correspondence tolerance, not bit equality).
  `none` = the `unwrap` panic on a singular covariance (also: empty sample `xs[0]`).
-/

namespace Hand
open RealLike

variable {α : Type} [RealLike α]

namespace Mat

def vadd (a b : List α) : List α := List.zipWith (· + ·) a b
def vsub (a b : List α) : List α := List.zipWith (· - ·) a b
def vscale (c : α) (a : List α) : List α := a.map (· * c)
def dot (a b : List α) : α := (List.zipWith (· * ·) a b).foldl (· + ·) (0.0 : α)
def mulVec (m : List (List α)) (v : List α) : List α := m.map (fun r => dot r v)
def outer (a b : List α) : List (List α) := a.map (fun x => b.map (fun y => x * y))
def madd (a b : List (List α)) : List (List α) := List.zipWith vadd a b
def identity (d : Nat) : List (List α) :=
  (List.range d).map (fun i => (List.range d).map (fun j => if i = j then (1.0 : α) else (0.0 : α)))

/-- index of the row `≥ c` with the largest `|entry in column c|` -/
def pivotRow (m : List (List α)) (c : Nat) : Nat :=
  ((List.range m.length).filter (fun r => c ≤ r)).foldl (fun best r =>
    if RealLike.gt (RealLike.abs (idxR (m.getD r []) c)) (RealLike.abs (idxR (m.getD best []) c)) then r else best) c

/-- Gauss–Jordan on the augmented matrix `[m | I]`; `none` when a pivot is exactly zero -/
def inverse? (m : List (List α)) : Option (List (List α)) :=
  let d := m.length
  let aug : List (List α) := List.zipWith (· ++ ·) m (identity d)
  let res := (List.range d).foldl (fun (st : Option (List (List α))) c =>
    match st with
    | none => none
    | some a =>
      let p := pivotRow a c
      let rp := a.getD p []
      let rc := a.getD c []
      let a := (a.set p rc).set c rp                      -- swap rows c and p
      let piv := idxR rp c
      if RealLike.feq piv (0.0 : α) then none
      else
        let rowc := rp.map (· / piv)
        some ((enumL a).map (fun (ir : Nat × List α) =>
          if ir.1 = c then rowc
          else let f := idxR ir.2 c; List.zipWith (fun x y => x - f * y) ir.2 rowc))) (some aug)
  res.map (fun a => a.map (fun r => r.drop d))

end Mat

/-- `mardia(xs)` (mardia.rs:8-50): `(pa, pb)` = p-values of the skewness and of the kurtosis statistic -/
def mardia? (xs : List (List α)) : Option (α × α) :=
  match xs with
  | [] => none                                                       -- `xs[0]` panics
  | x0 :: _ =>
    let dims := x0.length
    let n : α := ofNatR xs.length
    let zero : List α := List.replicate dims (0.0 : α)
    let xbar := (xs.foldl Mat.vadd zero).map (· / n)                  -- 12-13
    let zeroM : List (List α) := List.replicate dims zero
    let cov := (xs.foldl (fun acc x => let d := Mat.vsub x xbar; Mat.madd acc (Mat.outer d d)) zeroM).map
      (fun r => r.map (· / n))                                        -- 15-19
    match Mat.inverse? cov with                                       -- 21
    | none => none
    | some inv =>
      let ds := xs.map (fun x => Mat.vsub x xbar)
      let a0 := ds.foldl (fun a di => ds.foldl (fun a dj =>
          a + RealLike.powi (Mat.dot di (Mat.mulVec inv dj)) 3) a) (0.0 : α)   -- 23-29  ((dᵢᵀ·inv)·dⱼ in Rust: same real number)
      let a := a0 * ((1.0 : α) / ((6.0 : α) * n))                     -- 30
      let bsum := ds.foldl (fun acc d => let y := Mat.dot d (Mat.mulVec inv d); mulAdd y y acc) (0.0 : α)   -- 32-36
      let k : α := ofNatR dims
      let b := RealLike.sqrt (n / ((8.0 : α) * k * (k + (2.0 : α)))) *
        mulAdd (RealLike.recip n) bsum ((-k) * (k + (2.0 : α)))       -- 39-40
      let pb := Gen.Gaussian.sf_real (Gen.Gaussian.standard (α := α)) b    -- 42-43
      let df := k * (k + (1.0 : α)) * (k + (2.0 : α)) / (6.0 : α)     -- 45
      let pa := Gen.ChiSquared.sf_real (Gen.ChiSquared.new_unchecked df) a  -- 46-47 (`new(df).unwrap()`: df > 0 for dims ≥ 1)
      some (pa, pb)

end Hand
