import RvModel.Prelude
/-!
  Hand.Partition — hand model of `rv::data::Partition` (/repo/src/data/partition.rs) and of
  `Crp::draw` (/repo/src/dist/crp.rs:211-243) with `misc::crpPflip` (/repo/src/misc/func.rs:216-230).

  Mathlib-free, executable (driver entries in `Hand/DispatchC19.lean`).  `from_z` and `remove` are not in the
  generated model (closures with mutation); `append`, `k`, `len`, `weights` are, and `Props/C19A.lean` proves the
  definitions below equal to the generated ones.

  Panics of the Rust code are modelled as `Except.error "PANIC"`; returned errors carry the variant name.
-/
open RealLike

namespace Hand

/-- `struct Partition { z, counts }` (partition.rs:11-16) -/
structure P where
  z : List Nat
  counts : List Nat
deriving DecidableEq, Repr, Inhabited

namespace P

/-- `Partition::new` (partition.rs:81-86) -/
def new : P := ⟨[], []⟩

/-- `Partition::k` (partition.rs:212-214): `self.counts.len()` -/
def k (p : P) : Nat := p.counts.length

/-- `Partition::len` (partition.rs:217-219): `self.z.len()` -/
def len (p : P) : Nat := p.z.length

/-- `Partition::weights` (partition.rs:236-239): `counts[j] as f64 / len as f64` -/
def weights {α : Type} [RealLike α] (p : P) : List α :=
  let n : α := ofNatR p.len
  p.counts.map (fun ct => (ofNatR ct : α) / n)

/-- `z.iter().for_each(|&zi| counts[zi] += 1)` (partition.rs:131) -/
def tally (z : List Nat) (init : List Nat) : List Nat :=
  z.foldl (fun c zi => c.set zi (c.getD zi 0 + 1)) init

/-- `*z.iter().max()` (partition.rs:129) for a non-empty `z` -/
def maxL (z : List Nat) : Nat := z.foldl Nat.max 0

/-- `Partition::from_z` (partition.rs:124-139).  Both failure exits return `EmptyInputPartition`. -/
def fromZ (z : List Nat) : Except String P :=
  if z.isEmpty then .error "EmptyInputPartition"
  else
    let k := maxL z + 1
    let counts := tally z (List.replicate k 0)
    if counts.all (fun ct => decide (ct > 0)) then .ok ⟨z, counts⟩ else .error "EmptyInputPartition"

/-- `Partition::append` (partition.rs:183-199) -/
def append (p : P) (zi : Nat) : Except String P :=
  let k := p.k
  if zi > k then .error "IndicatorHigherThanNumberOfPartitions"
  else
    .ok ⟨p.z ++ [zi], if zi == k then p.counts ++ [1] else p.counts.set zi (p.counts.getD zi 0 + 1)⟩

/-- the relabelling closure of `remove` (partition.rs:159-163): `if *zj > zi { *zj -= 1 }` -/
def shift (zi : Nat) (zj : Nat) : Nat := if zj > zi then zj - 1 else zj

/-- `Partition::remove` (partition.rs:153-169).
    * `self.z.remove(ix)` panics when `ix ≥ len` (before any mutation: the state is unchanged);
    * `self.counts[zi]` panics when `zi ≥ counts.len()` (cannot happen on a well-formed partition);
    * when the block of the removed item had exactly one member its count is deleted and every label
      ABOVE `zi` is decremented (labels below stay): an order-preserving relabelling, which keeps the labels
      contiguous but not in order of first appearance;
    * otherwise `counts[zi] -= 1` (a debug build panics on `0 - 1`, a release build wraps; this cannot happen on a
      well-formed partition; modelled as a panic). -/
def remove (p : P) (ix : Nat) : Except String P :=
  if ix ≥ p.z.length then .error "PANIC"
  else
    let zi := p.z.getD ix 0
    let z := p.z.eraseIdx ix
    if zi ≥ p.counts.length then .error "PANIC"
    else if p.counts.getD zi 0 == 1 then
      .ok ⟨z.map (shift zi), p.counts.eraseIdx zi⟩
    else if p.counts.getD zi 0 == 0 then .error "PANIC"
    else .ok ⟨z, p.counts.set zi (p.counts.getD zi 0 - 1)⟩

/-- the operations of a history -/
inductive Op where
  | append (zi : Nat)
  | remove (ix : Nat)
deriving DecidableEq, Repr

/-- one operation: the new state (the OLD state when the operation fails) and its status -/
def step (p : P) : Op → P × Option String
  | .append zi => match p.append zi with
    | .ok q => (q, none)
    | .error e => (p, some e)
  | .remove ix => match p.remove ix with
    | .ok q => (q, none)
    | .error e => (p, some e)

/-- the state after a history -/
def run (p : P) (ops : List Op) : P := ops.foldl (fun p op => (step p op).1) p

/-- the statuses along a history -/
def runLog (p : P) : List Op → List (Option String)
  | [] => []
  | op :: ops => (step p op).2 :: runLog (step p op).1 ops

end P

/-! ### `Crp::draw` as a function of the uniform variates consumed by `crpPflip` -/

/-- the scan of `crpPflip` (func.rs:221-229): first index whose running sum exceeds `r`; `none` = the
    `panic!("Could not draw …")` exit -/
def crpPflipGo {α : Type} [RealLike α] (r : α) : List α → Nat → α → Option Nat
  | [], _, _ => none
  | w :: ws, ix, cwt =>
    let cwt := cwt + w
    if RealLike.gt cwt r then some ix else crpPflipGo r ws (ix + 1) cwt

/-- `crpPflip(weights, Some(sum), rng)` with `u = rng.gen::<f64>()` (func.rs:216-230) -/
def crpPflip {α : Type} [RealLike α] (weights : List α) (sum : α) (u : α) : Option Nat :=
  crpPflipGo (u * sum) weights 0 (0.0 : α)

/-- loop state of `Crp::draw` (crp.rs:213-219) -/
structure CrpSt (α : Type) where
  k : Nat
  weights : List α
  sum : α
  z : List Nat

/-- state before the loop (crp.rs:213-219) -/
def crpInit {α : Type} [RealLike α] (alpha : α) : CrpSt α := ⟨1, [(1.0 : α)], (1.0 : α) + alpha, [0]⟩

/-- one iteration of the seating loop (crp.rs:221-234) consuming the variate `u` -/
def crpStep {α : Type} [RealLike α] (alpha : α) (s : CrpSt α) (u : α) : Option (CrpSt α) :=
  let w1 := s.weights ++ [alpha]
  match crpPflip w1 s.sum u with
  | none => none
  | some zi =>
    let z := s.z ++ [zi]
    if zi == s.k then
      some ⟨s.k + 1, w1.set zi (1.0 : α), s.sum + (1.0 : α), z⟩
    else
      let w2 := w1.take s.k
      some ⟨s.k, w2.set zi (w2.getD zi RealLike.nan + (1.0 : α)), s.sum + (1.0 : α), z⟩

/-- the loop over the variates -/
def crpLoop {α : Type} [RealLike α] (alpha : α) : CrpSt α → List α → Option (CrpSt α)
  | s, [] => some s
  | s, u :: us => match crpStep alpha s u with
    | none => none
    | some s' => crpLoop alpha s' us

/-- `weights.iter().map(|w| (w + 0.5) as usize)` and `Partition::new_unchecked` (crp.rs:238-241) -/
def crpFinish {α : Type} [RealLike α] (s : CrpSt α) : P :=
  ⟨s.z, s.weights.map (fun w => RealLike.toNat (w + (0.5 : α)))⟩

/-- `Crp::draw` (crp.rs:212-242): the loop `for _ in 1..n` consumes one variate per iteration, the first
    `n - 1` of `us`; `none` = a panic inside `crpPflip`.  (For `n = 0`, reachable only through `new_unchecked`,
    the loop is empty and the result still has ONE item.) -/
def crpDraw {α : Type} [RealLike α] (alpha : α) (n : Nat) (us : List α) : Option P :=
  (crpLoop alpha (crpInit alpha) (us.take (n - 1))).map crpFinish

/-- `rng.gen::<f64>()` of rand-0.8.5 (`distributions/float.rs`: `(next_u64() >> 11) as f64 * 2^-53`) as a
    function of the 64-bit word; the division by `2^53` is exact in binary64 -/
def u01 {α : Type} [RealLike α] (w : Nat) : α := (ofNatR ((w % 2 ^ 64) / 2 ^ 11) : α) / (ofNatR (2 ^ 53) : α)

end Hand
