import RvModel.Num
import RvModel.Gen.Tables
/-!
  RvModel.Hand.Legendre — hand model of `/repo/src/misc/legendre.rs` (Gauss–Legendre quadrature), Mathlib-free.

  The translator cannot handle this file (`match n { 2 => &LEGENDRE_ROOT_2[..] …}`, closures as arguments),
  so the algorithmic part is written by hand, line by line; the *digits* are not: they come from
  `RvModel.Gen.Tables` (`GenTables.legendreRoot / legendreWeight`), regenerated from the Rust source on every run.

  Two instantiations of one definition `glTableOf`:
    * `glTable n : List Rat × List Rat`             exact rationals of the binary64 literals  (theorems, `decide +kernel`)
    * `glTableG (α) n : List α × List α`            any `[RealLike α]`; on `Float` it reproduces the Rust vectors
                                                    bit for bit (correspondence check)
  Order of the pair = order of the Rust return value `(result_weight, result_root)`: **weights first**.
-/

namespace Hand.Legendre
open GenTables

/-- index read by the mirroring loops, `legendre.rs:161-175`:
    even `n` (`:162-167`): `ref[n - i - 1]`;  odd `n` (`:168-173`): `ref[n - i]`. -/
def mirrorIdx (n i : Nat) : Nat := if n % 2 = 0 then n - i - 1 else n - i

/-- Body of `gauss_legendre_table` (`legendre.rs:156-176`) for given half tables, over any carrier `β`
    with a zero and a negation.

    * `:156-157`  `result_root = vec![0; n]`, `result_weight = vec![0; n]`
    * `:158-159`  the first `ref_root.len()` (resp. `ref_weight.len()`) entries are the half tables
    * `:161-175`  for `i in ref_root.len()..n`: `result_root[i] = -ref_root[mirrorIdx n i]`,
                  `result_weight[i] = ref_weight[mirrorIdx n i]`
    * `:176`      returns `(result_weight, result_root)`

    An out-of-range read (a panic in Rust) is `zero` here; `C14.gl_lengths` shows it never happens. -/
def glTableOf {β : Type} (zero : β) (neg : β → β) (refRoot refWeight : List β) (n : Nat) : List β × List β :=
  let m := refRoot.length
  let root := (List.range n).map fun i =>
    if i < m then refRoot.getD i zero else neg (refRoot.getD (mirrorIdx n i) zero)
  let weight := (List.range n).map fun i =>
    if i < m then refWeight.getD i zero else refWeight.getD (mirrorIdx n i) zero
  (weight, root)

/-- `gauss_legendre_table(n)` (`legendre.rs:89-177`) over exact rationals: `(weights, roots)`.
    `:90-121` / `:123-154` select the half tables (`GenTables.legendreRoot/legendreWeight`, generated);
    `n ∉ 2..30` is `panic!("Legendre quadrature is limited up to n = 30")` (`:120`, `:153`) — modelled as `([], [])`. -/
def glTable (n : Nat) : List Rat × List Rat :=
  if n < 2 ∨ 30 < n then ([], [])
  else glTableOf (0 : Rat) (fun x => -x) (legendreRoot n) (legendreWeight n) n

/-- `weights.iter().zip(roots.iter()).map(|(w, &x)| w * f(x)).sum::<f64>()`
    — `unit_gauss_legendre_quadrature_cached`, `legendre.rs:74-87` (left fold from 0), over `Rat`. -/
def unitQuadCached (f : Rat → Rat) (weights roots : List Rat) : Rat :=
  ((weights.zip roots).map fun (wx : Rat × Rat) => wx.1 * f wx.2).foldl (· + ·) 0

/-- `unit_gauss_legendre_quadrature(f, n)`, `legendre.rs:57-62`. -/
def unitQuad (f : Rat → Rat) (n : Nat) : Rat :=
  let t := glTable n
  unitQuadCached f t.1 t.2

/-- `gauss_legendre_quadrature_cached(f, (a,b), weights, roots)`, `legendre.rs:37-52`:
    `(b-a)/2 * unit(|x| f(x*(b-a)/2 + (a+b)/2))`. -/
def glQuadCached (f : Rat → Rat) (a b : Rat) (weights roots : List Rat) : Rat :=
  (b - a) / 2 * unitQuadCached (fun x => f (x * (b - a) / 2 + (a + b) / 2)) weights roots

/-- `gauss_legendre_quadrature(f, n, (a,b))`, `legendre.rs:14-23`. -/
def glQuad (f : Rat → Rat) (n : Nat) (a b : Rat) : Rat :=
  (b - a) / 2 * unitQuad (fun x => f (x * (b - a) / 2 + (a + b) / 2)) n

/-- quadrature of the monomial `x ↦ x^k` on `[-1,1]` with the `n`-point table -/
def glMonomial (n k : Nat) : Rat := unitQuad (fun x => x ^ k) n

/-- `∫₋₁¹ xᵏ dx` -/
def monoInt (k : Nat) : Rat := if k % 2 = 0 then 2 / ((k : Rat) + 1) else 0

/-- `|Σᵢ wᵢ xᵢᵏ − ∫₋₁¹ xᵏ| ≤ eps` as a Boolean (for `decide +kernel`) -/
def glOk (eps : Rat) (n k : Nat) : Bool :=
  let d := glMonomial n k - monoInt k
  decide (-eps ≤ d) && decide (d ≤ eps)

/-- all monomials of degree `< 2n` -/
def glNOk (eps : Rat) (n : Nat) : Bool := (List.range (2 * n)).all fun k => glOk eps n k

-- ---------------------------------------------------------------------------------------------------------
-- Boolean checkers of the table structure (evaluated by `decide +kernel` in Props/C14A.lean)

/-- left-fold sum of a list of rationals (`.sum::<f64>()` over exact arithmetic) -/
def sumQ (xs : List Rat) : Rat := xs.foldl (· + ·) 0

/-- half tables have `⌈n/2⌉` entries each (hence every index read by the mirroring loop is in range)
    and the result vectors have `n` entries -/
def glLenOk (n : Nat) : Bool :=
  (legendreRoot n).length == (n + 1) / 2 && (legendreWeight n).length == (n + 1) / 2 &&
  (glTable n).1.length == n && (glTable n).2.length == n

/-- every weight is positive -/
def glPosOk (n : Nat) : Bool := (glTable n).1.all fun w => decide (0 < w)

/-- every root lies strictly inside (-1, 1) -/
def glUnitOk (n : Nat) : Bool := (glTable n).2.all fun x => decide (-1 < x) && decide (x < 1)

/-- the set of (weight, root) pairs is closed under `(w, x) ↦ (w, -x)` -/
def glSymmOk (n : Nat) : Bool :=
  let t := glTable n
  let ps := t.1.zip t.2
  ps.all fun p => ps.contains (p.1, -p.2)

/-- the set of roots is closed under negation -/
def glRootSymmOk (n : Nat) : Bool :=
  let xs := (glTable n).2
  xs.all fun x => xs.contains (-x)

/-- the roots are pairwise distinct -/
def glNodupOk (n : Nat) : Bool :=
  let xs := (glTable n).2
  (List.range xs.length).all fun i => (List.range i).all fun j => xs.getD i 0 != xs.getD j 0

/-- `|Σ wᵢ − 2| ≤ eps` -/
def glSumOk (eps : Rat) (n : Nat) : Bool :=
  let d := sumQ (glTable n).1 - 2
  decide (-eps ≤ d) && decide (d ≤ eps)

/-- tolerance of the exactness theorems: 10⁻¹³ -/
def glEps : Rat := 1 / 10 ^ 13

/-- the `n` for which the table exists -/
def glNs : List Nat := (List.range 29).map (· + 2)

-- ---------------------------------------------------------------------------------------------------------
-- polynomials as coefficient lists (for the lift lemma `C14.gl_lift`)

/-- `Σⱼ c[j] · x^(k+j)` -/
def polyEvalFrom : Nat → List Rat → Rat → Rat
  | _, [], _ => 0
  | k, a :: cs, x => a * x ^ k + polyEvalFrom (k + 1) cs x

/-- the polynomial `Σⱼ c[j] xʲ` -/
def polyEval (c : List Rat) (x : Rat) : Rat := polyEvalFrom 0 c x

/-- `Σⱼ c[j] · ∫₋₁¹ x^(k+j)` -/
def polyIntFrom : Nat → List Rat → Rat
  | _, [] => 0
  | k, a :: cs => a * monoInt k + polyIntFrom (k + 1) cs

/-- `∫₋₁¹ Σⱼ c[j] xʲ dx`, termwise -/
def polyInt (c : List Rat) : Rat := polyIntFrom 0 c

/-- `Σ |c[j]|` -/
def absSum : List Rat → Rat
  | [] => 0
  | a :: cs => (if a < 0 then -a else a) + absSum cs

-- ---------------------------------------------------------------------------------------------------------
-- generic carrier

section generic
variable {α : Type} [RealLike α]

/-- exact rational ↦ carrier: `num / den`.  On `Float` this is exact for the table entries (|num| < 2^53, den a
    power of two), i.e. it returns the binary64 literal of the Rust source. -/
def ratTo (q : Rat) : α := RealLike.ofIntR q.num / RealLike.ofNatR q.den

/-- `gauss_legendre_table(n)` on the carrier `α`: `(weights, roots)`; negation performed in `α` as in Rust. -/
def glTableG (n : Nat) : List α × List α :=
  if n < 2 ∨ 30 < n then ([], [])
  else glTableOf (RealLike.ofNatR 0 : α) (fun x => -x)
    ((legendreRoot n).map ratTo) ((legendreWeight n).map ratTo) n

/-- `unit_gauss_legendre_quadrature_cached` on `α` (`sumL` = left fold from 0 = `.sum::<f64>()`). -/
def unitQuadCachedG (f : α → α) (weights roots : List α) : α :=
  sumL ((weights.zip roots).map fun (wx : α × α) => wx.1 * f wx.2)

/-- `gauss_legendre_quadrature_cached` on `α`, `legendre.rs:46-51`. -/
def glQuadCachedG (f : α → α) (a b : α) (weights roots : List α) : α :=
  (b - a) / (2.0 : α) *
    unitQuadCachedG (fun x => f (x * (b - a) / (2.0 : α) + (a + b) / (2.0 : α))) weights roots

/-- `gauss_legendre_quadrature` on `α`, `legendre.rs:18-22`. -/
def glQuadG (f : α → α) (n : Nat) (a b : α) : α :=
  let t := glTableG (α := α) n
  glQuadCachedG f a b t.1 t.2

end generic

end Hand.Legendre
