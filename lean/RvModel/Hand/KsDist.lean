import RvModel.Num
import RvModel.Prelude
/-!
  Hand.KsDist — hand model of `KsTwoAsymptotic::compute` (dist/ks.rs:71-150): cdf and pdf of the Kolmogorov distribution,
  the asymptotic law of the two-sided KS statistic.  The translator does not reach it (private associated function
  returning a private struct).  Mathlib-free, generic in the carrier.

  * x ≤ π/(8·746): (0, 0);
  * x ≤ 0.82: Jacobi-theta form  P = w·u·(1 + u⁸ + u²⁴ + u⁴⁸), u = exp(−π²/(8x²)), w = √(2π)/x  (Horner steps u²⁴, u¹⁶, u⁸);
  * x > 0.82: alternating form  1 − 2(v − v⁴ + v⁹ − v¹⁶), v = exp(−2x²).
-/
namespace Hand.KsDist
open RealLike

def minThreshold {α : Type} [RealLike α] : α := (RealLike.pi : α) / ((8.0 : α) * (746.0 : α))

def clamp01 {α : Type} [RealLike α] (p : α) : α := RealLike.min (RealLike.max p (0.0 : α)) (1.0 : α)

/-- dist/ks.rs:80-106 (branch `u ≠ 0`), returns (p, d) before clamping -/
def smallCore {α : Type} [RealLike α] (x : α) : α × α :=
  let w := RealLike.sqrt ((2.0 : α) * RealLike.pi) / x
  let logu8 := -(RealLike.pi : α) * RealLike.pi / (x * x)
  let u := RealLike.exp (logu8 / (8.0 : α))
  let u8 := RealLike.exp logu8
  let u8cub := u8 * u8 * u8
  let p := mulAdd u8cub (1.0 : α) (1.0 : α)
  let d := mulAdd u8cub (0.0 : α) (25.0 : α)
  let p := mulAdd (u8 * u8) p (1.0 : α)
  let d := mulAdd (u8 * u8) d (9.0 : α)
  let p := mulAdd u8 p (1.0 : α)
  let d := mulAdd u8 d (1.0 : α)
  let d := mulAdd ((RealLike.pi : α) * RealLike.pi / ((4.0 : α) * x * x)) d (-p)
  (p * (w * u), d * (w * u / x))

/-- dist/ks.rs:113-146, returns (1 − cdf, d) before clamping -/
def largeCore {α : Type} [RealLike α] (x : α) : α × α :=
  let v := RealLike.exp (-(2.0 : α) * x * x)
  let vsq := v * v
  let v3 := v * v * v
  let vp := v3 * v3 * v
  let p := mulAdd vp (-(1.0 : α)) (1.0 : α)
  let d := mulAdd (3.0 : α) (3.0 : α) (-vp * (0.0 : α))
  let vp := v3 * vsq
  let p := mulAdd vp (-p) (1.0 : α)
  let d := mulAdd (2.0 : α) (2.0 : α) (-vp * d)
  let vp := v3
  let p := mulAdd vp (-p) (1.0 : α)
  let d := mulAdd (1.0 : α) (1.0 : α) (-vp * d)
  (p * ((2.0 : α) * v), d * ((8.0 : α) * v * x))

/-- (cdf, pdf) -/
def compute {α : Type} [RealLike α] (x : α) : α × α :=
  if RealLike.le x (minThreshold : α) then ((0.0 : α), (0.0 : α))
  else if RealLike.le x (0.82 : α) then
    let u := RealLike.exp (-(RealLike.pi : α) * RealLike.pi / (x * x) / (8.0 : α))
    if RealLike.feq u (0.0 : α) then
      let w := RealLike.sqrt ((2.0 : α) * RealLike.pi) / x
      (clamp01 (RealLike.exp (-(RealLike.pi : α) * RealLike.pi / (x * x) / (8.0 : α) + RealLike.ln w)), (0.0 : α))
    else
      let r := smallCore x
      (clamp01 r.1, RealLike.max r.2 (0.0 : α))
  else
    let r := largeCore x
    (clamp01 ((1.0 : α) - RealLike.max r.1 (0.0 : α)), RealLike.max r.2 (0.0 : α))

end Hand.KsDist
