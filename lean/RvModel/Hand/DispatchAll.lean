import RvModel.Hand.Dispatch
import RvModel.Hand.DispatchC01B
import RvModel.Hand.DispatchC01C
/- all hand-written driver entries (integrator-maintained) -/
namespace HandDispatch
def table : List (String × Rd String) := tableC01A ++ tableC01B ++ tableC01C
end HandDispatch
