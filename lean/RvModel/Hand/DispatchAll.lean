import RvModel.Hand.Dispatch
import RvModel.Hand.DispatchC01B
import RvModel.Hand.DispatchC01C
import RvModel.Hand.DispatchC03
import RvModel.Hand.DispatchC08
import RvModel.Hand.DispatchC12
import RvModel.Hand.DispatchC14
import RvModel.Hand.DispatchC13B
import RvModel.Hand.DispatchC19
import RvModel.Hand.DispatchC11
import RvModel.Hand.DispatchC16
import RvModel.Hand.DispatchC20
import RvModel.Hand.DispatchC15
import RvModel.Hand.DispatchC17
import RvModel.Hand.DispatchC04
import RvModel.Hand.DispatchC05S
/- all hand-written driver entries (integrator-maintained) -/
namespace HandDispatch
def table : List (String × Rd String) := tableC01A ++ tableC13 ++ tableC01B ++ tableC01C ++ tableC03 ++ tableC08 ++ tableC12 ++ HandDispatchC14.tableC14 ++ tableC13B ++ tableC19 ++ HandDispatchC11.tableC11 ++ HandDispatchC16.tableC16 ++ tableC20 ++ HandDispatchC15.tableC15 ++ HandDispatchC17.tableC17 ++ tableC04 ++ HandDispatchC05S.tableC05S
end HandDispatch
