import RvModel.Hand.Dispatch
import RvModel.Hand.DispatchC01B
import RvModel.Hand.DispatchC01C
import RvModel.Hand.DispatchC03
import RvModel.Hand.DispatchC08
import RvModel.Hand.DispatchC12
import RvModel.Hand.DispatchC14
import RvModel.Hand.DispatchC13B
/- all hand-written driver entries (integrator-maintained) -/
namespace HandDispatch
def table : List (String × Rd String) := tableC01A ++ tableC13 ++ tableC01B ++ tableC01C ++ tableC03 ++ tableC08 ++ tableC12 ++ HandDispatchC14.tableC14 ++ tableC13B
end HandDispatch
