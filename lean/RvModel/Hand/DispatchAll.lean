import RvModel.Hand.Dispatch
import RvModel.Hand.DispatchC01B
/- all hand-written driver entries (integrator-maintained) -/
namespace HandDispatch
def table : List (String × Rd String) := tableC01A ++ tableC01B
end HandDispatch
