import RvModel.Wire
import RvModel.Gen.Dispatch
import RvModel.Spec.C01A
/- hand-written dispatch entries: Spec oracles and hand models (grows per property) -/
namespace HandDispatch
open GenDispatch Wire

/-- (distribution, real observation) ↦ real -/
def dx {S : Type} (rd : Rd S) (f : S → Float → Float) : Rd String := do
  let _ ← Wire.next; let d ← rd; let x ← rdF; pure (wrF (f d x))
/-- (distribution, natural observation) ↦ real -/
def dn {S : Type} (rd : Rd S) (f : S → Nat → Float) : Rd String := do
  let _ ← Wire.next; let d ← rd; let x ← rdN; pure (wrF (f d x))
/-- (distribution, integer observation) ↦ real -/
def di {S : Type} (rd : Rd S) (f : S → Int → Float) : Rd String := do
  let _ ← Wire.next; let d ← rd; let x ← rdI; pure (wrF (f d x))
/-- (distribution, boolean observation) ↦ real -/
def db {S : Type} (rd : Rd S) (f : S → Bool → Float) : Rd String := do
  let _ ← Wire.next; let d ← rd; let x ← rdB; pure (wrF (f d x))
/-- distribution ↦ real -/
def d0 {S : Type} (rd : Rd S) (f : S → Float) : Rd String := do
  let _ ← Wire.next; let d ← rd; pure (wrF (f d))

def tableC01A : List (String × Rd String) := [
  ("spec.Gaussian.ln_f_real", dx rd_Gaussian Spec.Gaussian.lnPdf)
]

end HandDispatch
