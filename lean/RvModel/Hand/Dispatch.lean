import RvModel.Wire
/- hand-model dispatch entries (grows per property) -/
namespace HandDispatch
def table : List (String × Rd String) := []
end HandDispatch
