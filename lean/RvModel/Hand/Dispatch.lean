import RvModel.Wire
import RvModel.Gen.Dispatch
import RvModel.Spec.C01A
import RvModel.Spec.C13
/- hand-written dispatch entries: Spec oracles and hand models (grows per property) -/
namespace HandDispatch
open GenDispatch Wire

/-- (distribution, real observation) ↦ real -/
def dx {S : Type} (rd : Rd S) (f : S → Float → Float) : Rd String := do
  let _ ← Wire.next; let d ← rd; let x ← rdF; pure (wrF (f d x))
/-- (distribution, natural observation) ↦ real -/
def dn {S : Type} (rd : Rd S) (f : S → Nat → Float) : Rd String := do
  let _ ← Wire.next; let d ← rd; let x ← rdN; pure (wrF (f d x))
/-- (distribution, integer observation) ↦ real -/
def di {S : Type} (rd : Rd S) (f : S → Int → Float) : Rd String := do
  let _ ← Wire.next; let d ← rd; let x ← rdI; pure (wrF (f d x))
/-- (distribution, boolean observation) ↦ real -/
def db {S : Type} (rd : Rd S) (f : S → Bool → Float) : Rd String := do
  let _ ← Wire.next; let d ← rd; let x ← rdB; pure (wrF (f d x))
/-- distribution ↦ real -/
def d0 {S : Type} (rd : Rd S) (f : S → Float) : Rd String := do
  let _ ← Wire.next; let d ← rd; pure (wrF (f d))

def tableC01A : List (String × Rd String) := [
  ("spec.Gaussian.ln_f_real", dx rd_Gaussian Spec.Gaussian.lnPdf)
]

def tableC13 : List (String × Rd String) := [
  ("spec.logsumexp", do let _ ← Wire.next; let xs ← rdL rdF; pure (wrF (Spec.logsumexp xs))),
  ("spec.logaddexp", do let _ ← Wire.next; let x ← rdF; let y ← rdF; pure (wrF (Spec.logaddexp x y))),
  ("spec.log1pexp", do let _ ← Wire.next; let x ← rdF; pure (wrF (Spec.log1pexp x))),
  ("spec.cumsum", do let _ ← Wire.next; let xs ← rdL rdF; pure (wrL wrF (Spec.cumsum xs)))
]
end HandDispatch
