import RvModel.Prelude
import RvModel.Gen.Defs
import RvModel.Hand.Stick
/-!
  Hand.StickConj — hand model of the conjugate pair `StickBreaking` (prior) / `StickBreakingDiscrete` (likelihood over
  `usize`) of `src/experimental/stick_breaking_process/stick_breaking.rs`, and of the statistic
  `StickBreakingDiscreteSuffStat` (`sbd_stat.rs`).  The translator rejects these functions (`zip_longest`, `Vec::resize`,
  `impl Iterator` return type) and its `Gen.StickBreakingDiscreteSuffStat.break_pairs` does NOT mean what the Rust means
  (the closure of sbd_stat.rs:43-46 mutates the captured `s`; the generated definition subtracts every count from the TOTAL).

  Structures are the generated ones: `Gen.StickBreaking α = ⟨break_prefix : List (Gen.Beta α), break_tail : Gen.UnitPowerLaw α⟩`,
  `Gen.StickBreakingDiscreteSuffStat α = ⟨counts : List Nat⟩`; densities of the breaks are `Gen.Beta.ln_f_real`,
  `Gen.UnitPowerLaw.ln_f_real`, the checked constructor is `Gen.Beta.new`.

  Convention of the code (stick_breaking.rs:128-150, stick_sequence.rs:66-68): the break `p_i = r_{i+1} / r_i` is the fraction of
  the remaining mass that is KEPT after stick `i`, `w_i = (1 − p_i) · r_i`.  An observation `x` PASSES breaks `0 … x−1` and FAILS
  break `x`; `break_pairs()[i] = (number of observations > i, number of observations = i)` and break `i` of the posterior is
  `Beta(α_i + #{> i}, β_i + #{= i})`, the tail `UnitPowerLaw(α)` being read as `Beta(α, 1)`.

  A Rust panic (`Beta::new(..).unwrap()`, `bs.last().unwrap()`, the `assert!`s, an index out of bounds) is `none`.
  Mathlib-free, generic in `[RealLike α]`, executable (driver entries in `Hand/DispatchC05S.lean`).
-/
open RealLike

namespace Hand.StickConj

abbrev SB (α : Type) := Gen.StickBreaking α
abbrev Stat (α : Type) := Gen.StickBreakingDiscreteSuffStat α
abbrev Dos (α : Type) := DataOrSuffStat Nat (Stat α)

/-- Rust `iter.sum::<f64>()` of the pinned toolchain: the fold starts from `-0.0` (so that an EMPTY sum is `-0.0`, as the real
    `ln_m(&[])` answers); for a non-empty list the value is that of `sumL` (`-0.0 + x = x`). -/
def sumRust {α : Type} [RealLike α] (xs : List α) : α := xs.foldl (· + ·) (-(0.0 : α))

/-! ### `StickBreakingDiscreteSuffStat` (sbd_stat.rs) -/

/-- `observe` (sbd_stat.rs:139-144): `if len < i+1 { resize(i+1, 0) }; counts[i] += 1` -/
def observeC (counts : List Nat) (i : Nat) : List Nat :=
  let c := if counts.length < i + 1 then counts ++ List.replicate (i + 1 - counts.length) 0 else counts
  c.set i (c.getD i 0 + 1)

/-- `forget` (sbd_stat.rs:155-158): `assert!(counts[i] > 0); counts[i] -= 1` — `none` = index panic or failed assertion.
    The vector is never shortened: trailing zeros stay. -/
def forgetC (counts : List Nat) (i : Nat) : Option (List Nat) :=
  match counts[i]? with
  | none => none
  | some c => if c > 0 then some (counts.set i (c - 1)) else none

/-- `observe_many` (trait default, traits.rs:677-679): `observe` in order -/
def observeManyC (counts : List Nat) (xs : List Nat) : List Nat := xs.foldl observeC counts

/-- `forget_many` (trait default, traits.rs:682-684) -/
def forgetManyC (counts : List Nat) (xs : List Nat) : Option (List Nat) :=
  xs.foldl (fun c x => c.bind (fun c => forgetC c x)) (some counts)

/-- the running closure of `break_pairs` (sbd_stat.rs:41-47): `s -= x; (s, x)` with `s` carried along -/
def breakPairsAux : Nat → List Nat → List (Nat × Nat)
  | _, [] => []
  | s, x :: xs => (s - x, x) :: breakPairsAux (s - x) xs

/-- `break_pairs` (sbd_stat.rs:39-48): `s = Σ counts`, then per index `(count beyond i, count at i)`.
    (`s - x` never underflows: `s` is the sum of the counts not yet visited.) -/
def breakPairsC (counts : List Nat) : List (Nat × Nat) := breakPairsAux counts.sum counts

def Stat.new {α : Type} : Stat α := ⟨[]⟩
def Stat.observe {α : Type} (s : Stat α) (i : Nat) : Stat α := ⟨observeC s.counts i⟩
def Stat.observeMany {α : Type} (s : Stat α) (xs : List Nat) : Stat α := ⟨observeManyC s.counts xs⟩
def Stat.forget {α : Type} (s : Stat α) (i : Nat) : Option (Stat α) := (forgetC s.counts i).map (fun c => ⟨c⟩)
/-- `n` (sbd_stat.rs:130-132) -/
def Stat.n {α : Type} (s : Stat α) : Nat := s.counts.sum
def Stat.breakPairs {α : Type} (s : Stat α) : List (Nat × Nat) := breakPairsC s.counts
/-- `From<&[usize]>` (sbd_stat.rs:72-76) -/
def Stat.ofData {α : Type} (xs : List Nat) : Stat α := Stat.observeMany Stat.new xs

/-- the statistic a `DataOrSuffStat` denotes: the `Data` arms of `posterior` / `ln_m` build `new()` + `observe_many`
    (stick_breaking.rs:289-293, 303-307) -/
def statOf {α : Type} : Dos α → Stat α
  | .data xs => Stat.ofData xs
  | .suffStat s => s

/-! ### `itertools::zip_longest` -/

inductive EOB (β γ : Type) where
  | left (b : β)
  | right (c : γ)
  | both (b : β) (c : γ)

def zipLongest {β γ : Type} : List β → List γ → List (EOB β γ)
  | [], [] => []
  | b :: bs, [] => .left b :: zipLongest bs []
  | [], c :: cs => .right c :: zipLongest [] cs
  | b :: bs, c :: cs => .both b c :: zipLongest bs cs

/-- `Beta::new(a, b).unwrap()` -/
def betaNewUnwrap {α : Type} [RealLike α] (a b : α) : Option (Gen.Beta α) :=
  match Gen.Beta.new a b with
  | .ok x => some x
  | .error _ => none

/-- `collect` of a sequence of results where a panic anywhere aborts -/
def allSome {β : Type} : List (Option β) → Option (List β)
  | [] => some []
  | none :: _ => none
  | some x :: xs => (allSome xs).map (fun r => x :: r)

/-! ### `impl ConjugatePrior<usize, StickBreakingDiscrete> for StickBreaking` -/

/-- one arm of `posterior_from_suffstat` (stick_breaking.rs:265-276) -/
def postArm {α : Type} [RealLike α] (tailAlpha : α) : EOB (Gen.Beta α) (Nat × Nat) → Option (Gen.Beta α)
  | .left beta => some beta
  | .right (a, b) => betaNewUnwrap (tailAlpha + ofNatR a) ((1.0 : α) + ofNatR b)
  | .both beta (a, b) => betaNewUnwrap (Gen.Beta.get_alpha beta + ofNatR a) (Gen.Beta.get_beta beta + ofNatR b)

/-- `posterior_from_suffstat` (stick_breaking.rs:256-282) -/
def posteriorFromSuffstat {α : Type} [RealLike α] (self : SB α) (stat : Stat α) : Option (SB α) :=
  let pairs := stat.breakPairs
  (allSome ((zipLongest self.break_prefix pairs).map (postArm (Gen.UnitPowerLaw.get_alpha self.break_tail)))).map
    (fun newPrefix => ({ break_prefix := newPrefix, break_tail := self.break_tail } : SB α))

/-- `posterior` (stick_breaking.rs:284-298) -/
def posterior {α : Type} [RealLike α] (self : SB α) : Dos α → Option (SB α)
  | .data xs => posteriorFromSuffstat self (Stat.observeMany Stat.new xs)
  | .suffStat stat => posteriorFromSuffstat self stat

/-- `rising_pow` (stick_breaking.rs:197-203; unused by the crate) -/
def risingPow {α : Type} [RealLike α] (x : α) (n : Nat) : α :=
  (List.range n).foldl (fun r k => r * (x + ofNatR k)) (1.0 : α)

/-- `rising_beta_prod` (stick_breaking.rs:205-220): `Π_{k<a} (x+k)/(x+y+k) · Π_{k<b} (y+k)/(x+y+a+k)`, multiplied and divided
    alternately in this order -/
def risingBetaProd {α : Type} [RealLike α] (x : α) (a : Nat) (y : α) (b : Nat) : α :=
  let x_y := x + y
  let r := (List.range a).foldl (fun r k => (let k := (ofNatR k : α); (r * (x + k)) / (x_y + k))) (1.0 : α)
  let x_y_a := x_y + ofNatR a
  (List.range b).foldl (fun r k => (let k := (ofNatR k : α); (r * (y + k)) / (x_y_a + k))) r

/-- one arm of `ln_m` (stick_breaking.rs:315-336); the left component is the count pair `(num_pass, num_fail)`,
    the right one the parameters `(a, b)` of a prefix break -/
def lnMArm {α : Type} [RealLike α] (alpha : α) : EOB (Nat × Nat) (α × α) → α
  | .left (numPass, numFail) =>
    let np : α := ofNatR numPass
    let nf : α := ofNatR numFail
    lnBeta (np + alpha) (nf + (1.0 : α)) - lnBeta alpha (1.0 : α)
  | .right _ => (0.0 : α)
  | .both (numPass, numFail) (a, b) => ln (risingBetaProd a numPass b numFail)

/-- `ln_m` on a statistic's `break_pairs` (stick_breaking.rs:310-337) -/
def lnMStat {α : Type} [RealLike α] (self : SB α) (stat : Stat α) : α :=
  let countPairs := stat.breakPairs
  let alpha := Gen.UnitPowerLaw.get_alpha self.break_tail
  let params := self.break_prefix.map (fun b => (Gen.Beta.get_alpha b, Gen.Beta.get_beta b))
  sumRust ((zipLongest countPairs params).map (lnMArm alpha))

/-- `ln_m` (stick_breaking.rs:301-338) -/
def lnM {α : Type} [RealLike α] (self : SB α) : Dos α → α
  | .data xs => lnMStat self (Stat.observeMany Stat.new xs)
  | .suffStat stat => lnMStat self stat

/-- `ln_m_cache` is `()`; `ln_m_with_cache` (stick_breaking.rs:341-347) ignores it -/
def lnMWithCache {α : Type} [RealLike α] (self : SB α) (_cache : Unit) (x : Dos α) : α := lnM self x

/-- `m` (trait default, traits.rs:583-585) -/
def m {α : Type} [RealLike α] (self : SB α) (x : Dos α) : α := exp (lnM self x)

/-- `ln_pp_cache` (stick_breaking.rs:248-253): the posterior -/
def lnPpCache {α : Type} [RealLike α] (self : SB α) (x : Dos α) : Option (SB α) := posterior self x

/-- `ln_pp_with_cache` (stick_breaking.rs:350-352): `cache.ln_m(Data(&[y]))` — `self` is not used -/
def lnPpWithCache {α : Type} [RealLike α] (_self : SB α) (cache : SB α) (y : Nat) : α := lnM cache (.data [y])

/-- `ln_pp` (trait default, traits.rs:577-580) -/
def lnPp {α : Type} [RealLike α] (self : SB α) (y : Nat) (x : Dos α) : Option α :=
  (lnPpCache self x).map (fun cache => lnPpWithCache self cache y)

/-- `pp_with_cache` (trait default, traits.rs:587-589) -/
def ppWithCache {α : Type} [RealLike α] (self : SB α) (cache : SB α) (y : Nat) : α := exp (lnPpWithCache self cache y)

/-- `pp` (stick_breaking.rs:355-362, overrides the default): `posterior(x).m(Data(&[y]))` -/
def pp {α : Type} [RealLike α] (self : SB α) (y : Nat) (x : Dos α) : Option α :=
  (posterior self x).map (fun post => m post (.data [y]))

/-! ### `PartialWeights` / `BreakSequence` and the density -/

/-- `From<&BreakSequence> for PartialWeights` (stick_breaking.rs:110-126): `w = (1 − b)·remaining; remaining −= w` -/
def weightsOfBreaksAux {α : Type} [RealLike α] : α → List α → List α
  | _, [] => []
  | remaining, b :: bs =>
    let w := ((1.0 : α) - b) * remaining
    w :: weightsOfBreaksAux (remaining - w) bs

def weightsOfBreaks {α : Type} [RealLike α] (bs : List α) : List α := weightsOfBreaksAux (1.0 : α) bs

/-- the `map` of `From<&PartialWeights> for BreakSequence` (stick_breaking.rs:130-144): `r_new = r_old − w; b = r_new / r_old` -/
def breaksOfWeightsAux {α : Type} [RealLike α] : α → List α → List α
  | _, [] => []
  | rOld, w :: ws =>
    let rNew := rOld - w
    (rNew / rOld) :: breaksOfWeightsAux rNew ws

/-- `From<&PartialWeights> for BreakSequence` (stick_breaking.rs:128-151) with its final `assert!((0.0..=1.0).contains(bs.last().unwrap()))`:
    `none` for an empty vector (`unwrap` of `None`) and when the last break is outside `[0, 1]` (NaN included).
    (The `debug_assert!`s are compiled out of a release build.) -/
def breaksOfWeights {α : Type} [RealLike α] (ws : List α) : Option (List α) :=
  let bs := breaksOfWeightsAux (1.0 : α) ws
  match bs.getLast? with
  | none => none
  | some l => if RealLike.le (0.0 : α) l && RealLike.le l (1.0 : α) then some bs else none

/-- `break_dists().zip(breaks)` mapped to the log densities (stick_breaking.rs:165-170): prefix `Beta`s first, then the tail forever -/
def lnFTerms {α : Type} [RealLike α] (tail : Gen.UnitPowerLaw α) : List (Gen.Beta α) → List α → List α
  | _, [] => []
  | [], p :: ps => Gen.UnitPowerLaw.ln_f_real tail p :: lnFTerms tail [] ps
  | beta :: betas, p :: ps => Gen.Beta.ln_f_real beta p :: lnFTerms tail betas ps

/-- `ln_f` on a break sequence -/
def lnFBreaks {α : Type} [RealLike α] (self : SB α) (bs : List α) : α :=
  sumRust (lnFTerms self.break_tail self.break_prefix bs)

/-- `HasDensity<PartialWeights>::ln_f` (stick_breaking.rs:164-172) -/
def lnF {α : Type} [RealLike α] (self : SB α) (w : List α) : Option α :=
  (breaksOfWeights w).map (lnFBreaks self)

/-- `f` (trait default): `ln_f(x).exp()` -/
def f {α : Type} [RealLike α] (self : SB α) (w : List α) : Option α := (lnF self w).map exp

/-! ### the likelihood of a statistic given the weights (`StickBreakingDiscrete::ln_f_stat`, sbd_stat.rs:113-121) -/

/-- `weights.iter().zip(counts).map(|(w, c)| c as f64 * w.ln()).sum()` for a weight vector at least as long as `counts` -/
def lnFStatOfWeights {α : Type} [RealLike α] (ws : List α) (counts : List Nat) : α :=
  sumRust ((ws.zip counts).map (fun (wc : α × Nat) => ofNatR wc.2 * ln wc.1))

/-! ### `StickBreakingDiscrete` on the lazily realised `StickSequence` (state machine of `Hand.Stick`)

  The sequence is realised on demand: `weights(n)` / `weight(n)` first extend the stored `ccdf` vector (`ensure_breaks`),
  so the VALUE of `ln_f_stat` must not depend on how far the sequence happened to be realised when it is called. -/

/-- `StickBreakingDiscrete::ln_f_stat` (sbd_stat.rs:113-121): `sticks.weights(counts.len())` — which realises `counts.len()` breaks and
    returns ALL stored weights — zipped with the counts -/
def sbdLnFStat {α : Type} [RealLike α] (breaks : Nat → α) (s : Stick.S α) (counts : List Nat) : α × Stick.S α :=
  let s' := Stick.ensureBreaks breaks counts.length s
  (lnFStatOfWeights (Stick.weightsOf s'.ccdf) counts, s')

/-- `StickBreakingDiscrete::ln_f` (sbd.rs:213-228): `sticks.weight(n).ln()`, `weight(n) = ccdf[n] - ccdf[n+1]` after `ensure_breaks(n+1)` -/
def sbdLnF {α : Type} [RealLike α] (breaks : Nat → α) (s : Stick.S α) (x : Nat) : α × Stick.S α :=
  let s' := Stick.ensureBreaks breaks (x + 1) s
  (ln (s'.ccdf.getD x RealLike.nan - s'.ccdf.getD (x + 1) RealLike.nan), s')

/-- the pointwise log-densities of a data set, evaluated in order on one object -/
def sbdLnFs {α : Type} [RealLike α] (breaks : Nat → α) : Stick.S α → List Nat → List α × Stick.S α
  | s, [] => ([], s)
  | s, x :: xs =>
    let r := sbdLnF breaks s x
    let rest := sbdLnFs breaks r.2 xs
    (r.1 :: rest.1, rest.2)

/-- `xs.iter().map(|x| sbd.ln_f(x)).sum::<f64>()` -/
def sbdSumLnF {α : Type} [RealLike α] (breaks : Nat → α) (s : Stick.S α) (xs : List Nat) : α × Stick.S α :=
  let r := sbdLnFs breaks s xs
  (sumRust r.1, r.2)

end Hand.StickConj
