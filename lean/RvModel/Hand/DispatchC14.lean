import RvModel.Wire
import RvModel.FloatInst
import RvModel.Hand.Legendre
import RvModel.Hand.Bessel
/-
  Driver entries of property C14 (Float carrier).  Every entry first consumes the kind token.

    hand.gauss_legendre_table <kind> <n>                      ↦  L<n> w… L<n> x…   (weights first, as the Rust tuple)
    hand.gauss_legendre_quadrature_monomial <kind> <n> <k> <a> <b>
                                                              ↦  gauss_legendre_quadrature(|x| x.powi(k), n, (a, b))
    hand.ln_fact_spec <kind> <n>                              ↦  lgamma(n+1)        (oracle for rv::misc::ln_fact)
    hand.i0_spec <kind> <x> / hand.i1_spec <kind> <x>         ↦  I₀(x) / I₁(x)      (oracle for rv::misc::bessel::i0/i1)
    hand.iv_spec <kind> <v> <z>                               ↦  I_v(z)             (oracle, z ≥ 0 resp. integer v)
    hand.bessel_iv <kind> <v> <z>                             ↦  model of bessel_iv's decision structure with the oracle
                                                                 as kernel:  value | E:<Variant>
-/
namespace HandDispatchC14
open Wire Hand.Legendre Hand.Bessel

def tableC14 : List (String × Rd String) := [
  ("hand.gauss_legendre_table", do
    let _ ← Wire.next; let n ← rdN
    let t := glTableG (α := Float) n
    pure (wrL wrF t.1 ++ " " ++ wrL wrF t.2)),
  ("hand.gauss_legendre_quadrature_monomial", do
    let _ ← Wire.next; let n ← rdN; let k ← rdN; let a ← rdF; let b ← rdF
    pure (wrF (glQuadG (α := Float) (fun x => RealLike.powi x (Int.ofNat k)) n a b))),
  ("hand.ln_fact_spec", do
    let _ ← Wire.next; let n ← rdN
    pure (wrF (RealLike.lgamma ((RealLike.ofNatR n : Float) + 1.0)))),
  ("hand.i0_spec", do
    let _ ← Wire.next; let x ← rdF
    pure (wrF (RealLike.bessI0 x))),
  ("hand.i1_spec", do
    let _ ← Wire.next; let x ← rdF
    pure (wrF (RealLike.bessI1 x))),
  ("hand.iv_spec", do
    let _ ← Wire.next; let v ← rdF; let z ← rdF
    pure (wrF (RealLike.bessIv v z))),
  ("hand.bessel_iv", do
    let _ ← Wire.next; let v ← rdF; let z ← rdF
    pure (wrE wrF (besselIvOracle v z)))
]

end HandDispatchC14
