import RvModel.Prelude
import RvModel.Gen.Defs
/-!
  RvModel.Hand.Ks — hand model of `/repo/src/misc/ks.rs` (and of `KsTwoAsymptotic::compute(..).cdf`,
  `/repo/src/dist/ks.rs`, which `ks_two_sample` calls).  Mathlib-free, generic in `[RealLike α]`.

  What is modelled, with the Rust lines:
    * `sortR`            `xs.sort_unstable_by(|a, b| a.partial_cmp(b).unwrap())`        ks.rs:43, 142, 145; empirical.rs:68, 114
    * `bsearch`          `<[T]>::binary_search_by(|p| p.partial_cmp(&x).unwrap())`       ks.rs:151, 155; empirical.rs:84
    * `ksStat*`, `ksTest` the statistic loop and the p-value of `ks_test`               ks.rs:37-57
    * `mpow`, `ksCdf`    Marsaglia–Tsang–Wang                                             ks.rs:385-470  (`mmul` is the GENERATED `Gen.mmul`)
    * `binomialW`        `num_integer::binomial::<usize>` (num-integer 0.1.46, lib.rs:1124-1167)
    * `pathsOutside*`    `paths_outside`                                                  ks.rs:265-301
    * `pathsInsideProportion`  `paths_inside_proportion`                                  ks.rs:324-371
    * `ksAsympCdf`       `KsTwoAsymptotic::compute(x).cdf`                                dist/ks.rs:71-149
    * `ksTwoSample`      `ks_two_sample`                                                  ks.rs:123-262 (`paths_outside_proportion` is the GENERATED def)

  Conventions.
    * The sort is a stable merge sort by `RealLike.le` (core `List.mergeSort`).  Rust's sort is unstable: the two agree up to
      the order of elements that compare equal, i.e. exactly when no two *distinguishable* values compare equal (the only such
      pair in binary64 is `0.0 / -0.0`).  A NaN makes the Rust comparator panic (`unwrap` on `None`) as soon as it is called;
      the model does not represent that panic (generators keep NaN out).
    * `binary_search_by` returns `Ok(i)` for SOME `i` with `s[i] == x` when there are several (unspecified by the std docs).
      `bsearch` transcribes the algorithm of the pinned toolchain (rustc 1.95: the branch-free loop of
      `core::slice::binary_search_by`, which ends on the LAST equal element); the theorems in Props/C20A only use the
      contract (`Ok(i)`: `s[i] = x`; `Err(i)`: insertion point — proved for `bsearch` as `C20L.bsearch_spec` in Lemmas/C20)
      and claim exact ECDF values for distinct sample values only.
    * `usize` arithmetic: `paths_outside` multiplies binomial coefficients in `usize`.  In a release build overflow WRAPS
      (debug: panics).  Every integer operation that can overflow goes through `wadd/wsub/wmul M` with a modulus `M`
      (`M = 0`: exact naturals, the specification reading; `M = 2^64`: what the release build computes).
    * Panics (slice index out of range in `paths_inside_proportion`) are `none` / `"PANIC"`.
-/

namespace Hand
open RealLike

variable {α : Type} [RealLike α]

/-! ### sorting and searching -/

/-- ks.rs:43 `xs_r.sort_unstable_by(|a, b| a.partial_cmp(b).unwrap())` -/
def sortR (xs : List α) : List α := xs.mergeSort (fun a b => RealLike.le a b)

/-- the loop of `core::slice::binary_search_by` (rustc ≥ 1.82):
    `while size > 1 { half = size/2; mid = base+half; base = if cmp(s[mid]) == Greater { base } else { mid }; size -= half }` -/
def bsearchLoop (s : List α) (x : α) : Nat → Nat → Nat → Nat
  | 0, _, base => base
  | fuel + 1, size, base =>
    if size > 1 then
      let half := size / 2
      let mid := base + half
      let base' := if RealLike.gt (idxR s mid) x then base else mid
      bsearchLoop s x fuel (size - half) base'
    else base

/-- `s.binary_search_by(|probe| probe.partial_cmp(&x).unwrap())`: `(true, i)` = `Ok(i)`, `(false, i)` = `Err(i)` -/
def bsearch (s : List α) (x : α) : Bool × Nat :=
  if s.length = 0 then (false, 0)
  else
    let base := bsearchLoop s x s.length s.length 0
    let p := idxR s base
    if RealLike.lt p x then (false, base + 1)
    else if RealLike.gt p x then (false, base)
    else (true, base)

/-! ### ks_test (ks.rs:37-57) -/

/-- one step of the fold of ks.rs:46-53: `let diff = (i/n - cdf(x)).abs(); if diff > acc { diff } else { acc }` -/
def ksStep (n : α) (acc : α) (iv : Nat × α) : α :=
  let diff := RealLike.abs (ofNatR iv.1 / n - iv.2)
  if RealLike.gt diff acc then diff else acc

/-- the statistic of `ks_test` as a function of the CDF values at the SORTED sample, `vals[i] = cdf(x₍ᵢ₎)`:
    only `|i/n − F x₍ᵢ₎|` (0-based `i`) is looked at — the left limit of the ECDF step at `x₍ᵢ₎` -/
def ksStatVals (vals : List α) : α :=
  let n : α := ofNatR vals.length
  (enumL vals).foldl (ksStep n) (0.0 : α)

/-- ks.rs:42-53 -/
def ksStat (xs : List α) (cdf : α → α) : α := ksStatVals ((sortR xs).map cdf)

/-! #### Marsaglia–Tsang–Wang (ks.rs:373-470) -/

/-- ks.rs:385-408.  `none` = the recursion does not terminate (`n = 0`: `mpow(xs, ea, 0)` calls `mpow(xs, ea, 0/2)` forever;
    the real code overflows its stack).  The fuel is the recursion depth; `n` itself always suffices for `n ≥ 1`. -/
def mpow (xs : List (List α)) (ea : Int) : Nat → Nat → Option (List (List α) × Int)
  | 0, _ => none
  | fuel + 1, n =>
    if n = 1 then some (xs, ea)
    else
      match mpow xs ea fuel (n / 2) with
      | none => none
      | some (zs, ev) =>
        let m := xs.length
        let ys := Gen.mmul zs zs
        let eb := 2 * ev
        let (zs, ev) := if n % 2 = 0 then (ys, eb) else (Gen.mmul xs ys, ea + eb)
        if RealLike.gt (idxR (zs.getD (m / 2) []) (m / 2)) (1e140 : α) then
          some (zs.map (fun r => r.map (fun z => z * (1e-140 : α))), ev + 140)
        else some (zs, ev)

/-- entry `(i, j)` of the matrix `H` built at ks.rs:429-457 (same floating operation order):
    1 on and below the super-diagonal, minus `h^(i+1)` in column 0, minus `h^(m-j)` in the last row (the corner gets both),
    plus `(2h-1)^m` in the corner when positive, then divided successively by `1, 2, …, i-j+1`. -/
def ksH (m : Nat) (h : α) (i j : Nat) : α :=
  let e0 : α := if j ≤ i + 1 then (1.0 : α) else (0.0 : α)                              -- 430-436
  -- 438-441: for r in 0..m { hs[r][0] -= h^(r+1); hs[m-1][r] -= h^(m-r) }, in this order
  let e1 : α :=
    if i = m - 1 ∧ j = 0 then
      (if m = 1 then (e0 - RealLike.powi h 1) - RealLike.powi h (Int.ofNat m)
       else (e0 - RealLike.powi h (Int.ofNat m)) - RealLike.powi h (Int.ofNat m))
    else if j = 0 then e0 - RealLike.powi h (Int.ofNat (i + 1))
    else if i = m - 1 then e0 - RealLike.powi h (Int.ofNat (m - j))
    else e0
  let t : α := mulAdd (2.0 : α) h (-(1.0 : α))
  let e2 : α :=                                                                         -- 443-447
    if i = m - 1 ∧ j = 0 then e1 + (if RealLike.gt t (0.0 : α) then RealLike.powi t (Int.ofNat m) else (0.0 : α)) else e1
  if j ≤ i then (List.range' 1 (i - j + 1)).foldl (fun v g => v / ofNatR g) e2 else e2  -- 449-457

/-- ks.rs:416-470.  `none` = non-termination (`n = 0`). -/
def ksCdf? (n : Nat) (d : α) : Option α :=
  let nf : α := ofNatR n
  let s : α := d * d * nf
  if RealLike.gt s (7.24 : α) || (RealLike.gt s (3.76 : α) && decide (n > 99)) then
    some (mulAdd (2.0 : α)
      (-(RealLike.exp (-(((2.000071 : α) + (0.331 : α) / RealLike.sqrt nf + (1.409 : α) / nf) * s)))) (1.0 : α))
  else
    let k : Nat := RealLike.toNat (nf * d) + 1
    let m : Nat := 2 * k - 1
    let h : α := mulAdd nf (-d) (ofNatR k)
    let hs : List (List α) := (List.range m).map (fun i => (List.range m).map (fun j => ksH m h i j))
    match mpow hs 0 (n + 1) n with
    | none => none
    | some (qs, eq) =>
      let s0 : α := idxR (qs.getD (k - 1) []) (k - 1)
      let (s, eq) := (List.range' 1 (n - 1)).foldl (fun (se : α × Int) i =>
          let s := se.1 * (ofNatR i / nf)
          if RealLike.lt s (1e-140 : α) then (s * (1e140 : α), se.2 - 140) else (s, se.2)) (s0, eq)
      some (s * RealLike.powi (10.0 : α) eq)

/-- total version: NaN where the real code does not return -/
def ksCdf (n : Nat) (d : α) : α := (ksCdf? n d).getD RealLike.nan

/-- `ks_test(xs, cdf)`: `(d, 1 - ks_cdf(n, d))`; `none` = the call does not return (empty sample) -/
def ksTest (xs : List α) (cdf : α → α) : Option (α × α) :=
  let d := ksStat xs cdf
  match ksCdf? xs.length d with
  | none => none
  | some c => some (d, (1.0 : α) - c)

/-! ### exact p-values: lattice paths -/

/-- `usize` operations with modulus `M` (`0` = exact) -/
def wmul (M a b : Nat) : Nat := if M = 0 then a * b else (a * b) % M
def wadd (M a b : Nat) : Nat := if M = 0 then a + b else (a + b) % M
def wsub (M a b : Nat) : Nat := if M = 0 then a - b else (a + M - b % M) % M

/-- num-integer lib.rs:1124 `multiply_and_divide(r, a, b) = r / gcd(r,b) * (a / (b / gcd(r,b)))` -/
def mulDivW (M r a b : Nat) : Nat :=
  let g := Nat.gcd r b
  wmul M (r / g) (a / (b / g))

/-- num-integer lib.rs:1148 `binomial(n, k)` on `usize` -/
def binomialW (M n k : Nat) : Nat :=
  if k > n then 0
  else
    let k := if k > n - k then n - k else k
    ((List.range' 1 k).foldl (fun (rn : Nat × Nat) d => (mulDivW M rn.1 rn.2 d, rn.2 - 1)) (1, n)).1

/-- ks.rs:282-292: `b[0] = 1; b[j] = C(x_j + j, j) − Σ_{i<j} C(x_j − x_i + j − i, j − i)·b[i]` -/
def pathsB (M : Nat) (xj : List Nat) : List Nat :=
  (List.range' 1 (xj.length - 1)).foldl (fun (b : List Nat) j =>
      let bj0 := binomialW M (xj.getD j 0 + j) j
      let bj := (List.range j).foldl (fun bj i =>
          wsub M bj (wmul M (binomialW M (xj.getD j 0 - xj.getD i 0 + j - i) (j - i)) (b.getD i 0))) bj0
      b.set j bj)
    ((List.replicate xj.length 0).set 0 1)

/-- ks.rs:277-300 given the abscissae `xj` (`m ≥ n` already swapped) -/
def pathsOutsideXj (M m n : Nat) (xj : List Nat) : Nat :=
  if xj.length = 0 then binomialW M (m + n) n
  else
    let b := pathsB M xj
    (List.range xj.length).foldl (fun acc j =>
        wadd M acc (wmul M (b.getD j 0) (binomialW M ((m - xj.getD j 0) + (n - j)) (n - j)))) 0

/-- `paths_outside(m, n, g, h)` (ks.rs:265-301) with `h : f64`;  `x_j = ceil((mg·j + h)/ng) as usize`, kept while `≤ m` -/
def pathsOutside (M m n g : Nat) (h : α) : Nat :=
  let (m, n) := (Nat.max m n, Nat.min m n)
  let mg := m / g
  let ng := n / g
  let xj := ((List.range (n + 1)).map (fun j =>
      RealLike.toNat (RealLike.ceil (mulAdd (ofNatR mg : α) (ofNatR j) h / ofNatR ng)))).filter (fun x => x ≤ m)
  pathsOutsideXj M m n xj

/-- the same with `h` a natural number: `x_j = ⌈(mg·j + h)/ng⌉`; `M` as above -/
def pathsOutsideNatW (M m n g h : Nat) : Nat :=
  let (m, n) := (Nat.max m n, Nat.min m n)
  let mg := m / g
  let ng := n / g
  let xj := ((List.range (n + 1)).map (fun j => (mg * j + h + ng - 1) / ng)).filter (fun x => x ≤ m)
  pathsOutsideXj M m n xj

/-- over exact naturals (no wrap-around) -/
def pathsOutsideNat (m n g h : Nat) : Nat := pathsOutsideNatW 0 m n g h

/-- state of the column loop of `paths_inside_proportion` -/
inductive PIState (α : Type) where
  | run (a : List α) (minJ maxJ curLen : Nat)
  | ret (v : α)
  | panic

/-- Rust `a[lo..hi]` : `none` when `lo > hi` or `hi > len` (panic) -/
def sliceR {β : Type} (a : List β) (lo hi : Nat) : Option (List β) :=
  if lo ≤ hi ∧ hi ≤ a.length then some ((a.drop lo).take (hi - lo)) else none

/-- ks.rs:356-358 `for j in 0..w { a[j] = a[lo..hi].iter().sum() }` — in place: later sums see the entries already overwritten.
    `none` = panic (slice or index out of range) -/
def piFill (a : List α) (lo hi w : Nat) : Option (List α) :=
  (List.range w).foldl (fun (st : Option (List α)) j =>
    match st with
    | none => none
    | some a =>
      match sliceR a lo hi with
      | none => none
      | some sl => if j < a.length then some (a.set j (sumL sl)) else none) (some a)

/-- one column `i` (ks.rs:341-369) -/
def piStep (n : Nat) (ngF mgF nF h : α) (st : PIState α) (i : Nat) : PIState α :=
  match st with
  | .ret v => .ret v
  | .panic => .panic
  | .run a lastMinJ _ lastLen =>
    let iF : α := ofNatR i
    let minJ := RealLike.toNat (RealLike.max (RealLike.floor (mulAdd ngF iF (-h) / mgF) + (1.0 : α)) (0.0 : α))
    let minJ := Nat.min minJ n
    let maxJ := Nat.max (RealLike.toNat (RealLike.floor (mulAdd ngF iF h / mgF) + (1.0 : α))) (n + 1)
    if maxJ ≤ minJ then .ret (0.0 : α)
    else if minJ < lastMinJ then .panic                         -- `min_j - last_min_j` underflows, the slice start is huge
    else
      match piFill a (minJ - lastMinJ) (maxJ - lastMinJ) (maxJ - minJ) with
      | none => .panic
      | some a =>
        let curLen := maxJ - minJ
        let a := if lastLen > curLen then
            (enumL a).map (fun (jv : Nat × α) =>
              if curLen ≤ jv.1 ∧ jv.1 < curLen + (lastLen - curLen) then (0.0 : α) else jv.2)
          else a
        let sc : α := iF / (nF + iF)
        .run (a.map (fun x => x * sc)) minJ maxJ curLen

/-- `paths_inside_proportion(m, n, g, h)` (ks.rs:324-371); `none` = panic -/
def pathsInsideProportion (m n g : Nat) (h : α) : Option α :=
  let (m, n) := (Nat.max m n, Nat.min m n)
  let nF : α := ofNatR n
  let mg := m / g
  let ng := n / g
  let mgF : α := ofNatR mg
  let ngF : α := ofNatR ng
  let minJ := 0
  let maxJ := Nat.min (n + 1) (RealLike.toNat (RealLike.ceil (h / mgF)))
  let curLen := maxJ - minJ
  let lenA := Nat.min (n + 1) (2 * maxJ + 2)
  let a : List α := (List.range lenA).map (fun i => if minJ ≤ i ∧ i < maxJ then (1.0 : α) else (0.0 : α))
  match (List.range' 1 m).foldl (piStep n ngF mgF nF h) (.run a minJ maxJ curLen) with
  | .ret v => some v
  | .panic => none
  | .run a minJ maxJ _ => if maxJ - minJ - 1 < a.length ∧ minJ < maxJ then some (idxR a (maxJ - minJ - 1)) else none

/-! ### KsTwoAsymptotic::compute(x).cdf (dist/ks.rs:71-149) -/

/-- `f64::clamp(x, 0.0, 1.0)` -/
def clamp01 (x : α) : α :=
  if RealLike.lt x (0.0 : α) then (0.0 : α) else if RealLike.gt x (1.0 : α) then (1.0 : α) else x

def ksAsympCdf (x : α) : α :=
  let PI : α := RealLike.pi
  let minThreshold : α := PI / ((8.0 : α) * (-(-(746.0 : α))))
  if RealLike.le x minThreshold then (0.0 : α)
  else if RealLike.le x (0.82 : α) then
    let w := RealLike.sqrt ((2.0 : α) * PI) / x
    let logu8 := (-PI) * PI / (x * x)
    let u := RealLike.exp (logu8 / (8.0 : α))
    if RealLike.feq u (0.0 : α) then
      clamp01 (RealLike.exp (logu8 / (8.0 : α) + RealLike.ln w))
    else
      -- Horner steps u²⁴, u¹⁶, u⁸ (dist/ks.rs after the repair of the series: 1 + u⁸ + u²⁴ + u⁴⁸)
      let u8 := RealLike.exp logu8
      let u8cub := RealLike.powi u8 3
      let p : α := (1.0 : α)
      let p := mulAdd u8cub p (1.0 : α)
      let p := mulAdd (u8 * u8) p (1.0 : α)
      let p := mulAdd u8 p (1.0 : α)
      clamp01 (p * (w * u))
  else
    let v := RealLike.exp ((-(2.0 : α)) * x * x)
    let vsq := v * v
    let v3 := RealLike.powi v 3
    let p : α := (1.0 : α)
    let p := mulAdd (v3 * v3 * v) (-p) (1.0 : α)
    let p := mulAdd (v3 * vsq) (-p) (1.0 : α)
    let p := mulAdd v3 (-p) (1.0 : α)
    let p := p * ((2.0 : α) * v)
    let p := RealLike.max p (0.0 : α)
    clamp01 ((1.0 : α) - p)

/-! ### ks_two_sample (ks.rs:123-262) -/

inductive KsMode where
  | exact | asymptotic | auto
  deriving DecidableEq, Repr

inductive KsAlternative where
  | twoSided | less | greater
  deriving DecidableEq, Repr

/-- ks.rs:59 -/
def KS_AUTO_CUTOVER : Nat := 10000

/-- ks.rs:147-159: for every point of the pooled (sorted xs ++ sorted ys) sample the pair
    `(ix_x / n_x, ix_y / n_y)` where `ix` is the index returned by the binary search, `Ok` or `Err` alike.
    The search is a parameter (`bs`), see the header. -/
def ecdfPairs (bs : List α → α → Bool × Nat) (xs ys : List α) : List (α × α) :=
  let nx : α := ofNatR xs.length
  let ny : α := ofNatR ys.length
  (xs ++ ys).map (fun x => (ofNatR (bs xs x).2 / nx, ofNatR (bs ys x).2 / ny))

/-- ks.rs:161-171: `(min_s, max_s)` with `min_s` already negated -/
def minMaxS (ps : List (α × α)) : α × α :=
  let mm := ps.foldl (fun (mm : α × α) (c : α × α) =>
      let z := c.1 - c.2
      (RealLike.min mm.1 z, RealLike.max mm.2 z)) ((RealLike.maxFinite : α), -(RealLike.maxFinite : α))
  (-mm.1, mm.2)

/-- ks.rs:173-177 (sorted inputs) -/
def ksTwoStatSorted (bs : List α → α → Bool × Nat) (xs ys : List α) (alt : KsAlternative) : α :=
  let mm := minMaxS (ecdfPairs bs xs ys)
  match alt with
  | .less => mm.1
  | .greater => mm.2
  | .twoSided => RealLike.max mm.2 mm.1

/-- the raw statistic of `ks_two_sample` (before the `h / lcm` re-rounding of the exact branch) -/
def ksTwoStat (bs : List α → α → Bool × Nat) (xs ys : List α) (alt : KsAlternative) : α :=
  ksTwoStatSorted bs (sortR xs) (sortR ys) alt

/-- ks.rs:222-225: `(0..h).fold(1.0, |p, j| (n - j) * p / (n + j + 1))` -/
def oneSidedEqualP (n : Nat) (h : α) : α :=
  (List.range (RealLike.toNat h)).foldl (fun p j =>
      (ofNatR (n - j) : α) * p / ((ofNatR n : α) + ofNatR j + (1.0 : α))) (1.0 : α)

/-- ks.rs:201-235, the exact branch.  `M` = `usize` modulus (see header). -/
def ksTwoExact (M nx ny : Nat) (stat : α) (alt : KsAlternative) : Except String (α × α) :=
  let g := Nat.gcd nx ny
  let lcm : α := ((ofNatR nx : α) / ofNatR g) * ofNatR ny
  let h := RealLike.round (stat * lcm)
  let stat := h / lcm
  if RealLike.feq h (0.0 : α) then .ok (stat, (1.0 : α))
  else
    match alt with
    | .twoSided =>
      if nx = ny then .ok (stat, Gen.paths_outside_proportion nx h)
      else match pathsInsideProportion nx ny g h with
        | none => .error "PANIC"
        | some q => .ok (stat, (1.0 : α) - q)
    | _ =>
      if nx = ny then .ok (stat, oneSidedEqualP nx h)
      else .ok (stat, (ofNatR (pathsOutside M nx ny g h) : α) / ofNatR (binomialW M (nx + ny) nx))

/-- ks.rs:236-259, the asymptotic branch -/
def ksTwoAsymp (nx ny : Nat) (stat : α) (alt : KsAlternative) : α × α :=
  let nxF : α := ofNatR nx
  let nyF : α := ofNatR ny
  match alt with
  | .twoSided =>
    let en := RealLike.sqrt (nxF * nyF / (nyF + nxF))
    (stat, (1.0 : α) - ksAsympCdf (en * stat))
  | _ =>
    let m : α := ofNatR (Nat.max nx ny)
    let n : α := ofNatR (Nat.min nx ny)
    let z := RealLike.sqrt (m * n / (m + n)) * stat
    let expt := mulAdd ((-(2.0 : α)) * z) z
      ((-(2.0 : α)) * z * mulAdd (2.0 : α) n m / RealLike.sqrt (m * n * (m + n)) / (3.0 : α))
    (stat, RealLike.exp expt)

/-- `ks_two_sample(xs, ys, mode, alternative)`;  errors: `"E:EmptySlice"`, `"E:TooLongForExact"`, `"PANIC"` -/
def ksTwoSampleWith (bs : List α → α → Bool × Nat) (M : Nat) (xs ys : List α) (mode : KsMode) (alt : KsAlternative) :
    Except String (α × α) :=
  if xs.length = 0 ∨ ys.length = 0 then .error "E:EmptySlice"                        -- 132-134
  else
    let nx := xs.length
    let ny := ys.length
    let stat := ksTwoStat bs xs ys alt
    let g := Nat.gcd nx ny
    let nxg : α := (ofNatR nx : α) / ofNatR g
    let nyg : α := (ofNatR ny : α) / ofNatR g
    let useExact : Except String Bool :=                                              -- 184-199
      match mode with
      | .asymptotic => .ok false
      | .auto => .ok (decide (Nat.max nx ny ≤ KS_AUTO_CUTOVER))
      | .exact => if RealLike.gt nxg ((RealLike.maxFinite : α) / nyg) then .error "E:TooLongForExact" else .ok true
    match useExact with
    | .error e => .error e
    | .ok true => ksTwoExact M nx ny stat alt
    | .ok false => .ok (ksTwoAsymp nx ny stat alt)

/-- the model of the release build: pinned `binary_search_by`, 64-bit `usize` -/
def ksTwoSample (xs ys : List α) (mode : KsMode) (alt : KsAlternative) : Except String (α × α) :=
  ksTwoSampleWith bsearch (2 ^ 64) xs ys mode alt

end Hand
