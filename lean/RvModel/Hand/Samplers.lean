import RvModel.Prelude
import RvModel.Gen.Defs
/-!
  RvModel.Hand.Samplers — hand models of the weighted index samplers and list helpers of
  `/repo/src/misc/func.rs` that take an `Rng` (not translated by rs2lean), as total functions of the
  uniform variates they consume, plus the exact word → variate maps of `rand-0.8.5`.

  Mathlib-free, generic in `[RealLike α]` (runs on `Float` in the driver, proved about on `R` / `X`).
  `none` always models a Rust `panic!` / failed `assert!` / `unwrap()` on `None`.
  The generated `Gen.cumsum`, `Gen.catflip`, `Gen.logsumexp` are used wherever the Rust code calls them.
-/

namespace Hand
open RealLike

variable {α : Type} [RealLike α]

/-! ## generator maps: one 64-bit word ↦ one variate (`rand-0.8.5/src/distributions/{float,uniform}.rs`) -/

/-- `rng.gen::<f64>()` = `Standard`: float.rs:106-118
    `value = next_u64() >> (64 - 53); scale * value` with `scale = 1/2^53` (a power of two: the product is exact). -/
def std01 (w : Nat) : α := ofNatR (w >>> 11) / ofNatR (2 ^ 53)

/-- `rng.sample(Open01)`: float.rs:137-148
    `fraction = next_u64() >> 12; from_bits(fraction | 1023 << 52) - (1 - EPSILON/2)`
    `= (1 + fraction/2^52) - (1 - 2^-53) = (2·fraction + 1)/2^53` (exactly representable, so the subtraction is exact). -/
def open01 (w : Nat) : α := ofNatR (2 * (w >>> 12) + 1) / ofNatR (2 ^ 53)

/-- `rng.sample(Uniform::new(0.0, 1.0))`: uniform.rs:823-857 (`new`: `scale = high - low = 1`, the shrink loop does not fire
    because `1·(1-2^-52) + 0 < 1`), uniform.rs:896-911 (`sample`):
    `value1_2 = from_bits((next_u64() >> 12) | 1023 << 52); (value1_2 - 1.0) * scale + low = (w >> 12)/2^52`. -/
def uniform01 (w : Nat) : α := ofNatR (w >>> 12) / ofNatR (2 ^ 52)

/-! ## `partial_cmp` and `Iterator::max_by` -/

/-- `f64::partial_cmp` (core::cmp, `impl PartialOrd for f64`):
    `match (a <= b, a >= b) { (false,false) => None, (false,true) => Greater, (true,false) => Less, (true,true) => Equal }` -/
def pcmp (a b : α) : Option Ordering :=
  match le a b, ge a b with
  | false, false => none
  | false, true => some .gt
  | true, false => some .lt
  | true, true => some .eq

/-- `Iterator::max_by(compare)` = `reduce(|x, y| match compare(&x, &y) { Greater => x, _ => y })`
    (core::iter::Iterator::max_by): the LAST maximal element wins; `compare` may panic (`none`). -/
def maxByLoop {β : Type} (cmp : β → β → Option Ordering) : List β → β → Option β
  | [], best => some best
  | y :: t, best =>
    match cmp best y with
    | none => none
    | some .gt => maxByLoop cmp t best
    | some _ => maxByLoop cmp t y

/-- `iter.max_by(compare).unwrap()`: `none` on an empty iterator (unwrap of `None`) or when a comparison panics -/
def maxBy {β : Type} (cmp : β → β → Option Ordering) : List β → Option β
  | [] => none
  | x :: t => maxByLoop cmp t x

/-! ## `pflip` (func.rs:216-230) -/

/-- the `for (ix, w) in weights.iter().enumerate()` loop of `pflip`, func.rs:223-228; falling out of the loop is the
    `panic!("Could not draw from …")` of func.rs:229 -/
def pflipLoop : List α → Nat → α → α → Option Nat
  | [], _, _, _ => none
  | w :: t, ix, cwt, r =>
    let cwt := cwt + w
    if gt cwt r then some ix else pflipLoop t (ix + 1) cwt r

/-- `pflip(weights, sum, rng)` as a function of the variate `u = rng.gen::<f64>()` (= `std01 word`), func.rs:216-230.
    `none` = `assert!(!weights.is_empty())` or the final `panic!`. -/
def pflip (weights : List α) (sum : Option α) (u : α) : Option Nat :=
  if weights.isEmpty then none
  else
    let s := match sum with
      | some s => s
      | none => sumL weights            -- `weights.iter().sum::<f64>()`, func.rs:219
    let r := u * s                      -- func.rs:222
    pflipLoop weights 0 (0.0 : α) r

/-! ## `pflips` (func.rs:233-252) -/

/-- one draw of `pflips`: `catflip(&cws, rng.sample(u) * scale)`, func.rs:242-249, `u = uniform01 word` -/
def pflips1 (weights : List α) (u : α) : Option Nat :=
  if weights.isEmpty then none          -- `assert!(!weights.is_empty())`, func.rs:234
  else
    let cws := Gen.cumsum weights       -- func.rs:236
    let scale := cws.getLastD nan       -- `*cws.last().unwrap()`, func.rs:237 (non-empty here)
    Gen.catflip cws (u * scale)

/-- `pflips(weights, n, rng)` with `n = us.length`, draw by draw (`none` = the `panic!` of func.rs:247 at that draw,
    or the failed `assert!`) -/
def pflips (weights : List α) (us : List α) : List (Option Nat) :=
  us.map (pflips1 weights)

/-- `Some` of all values iff none of the entries is `none` -/
def collect {β : Type} : List (Option β) → Option (List β)
  | [] => some []
  | none :: _ => none
  | some x :: t => (collect t).map (x :: ·)

/-- the value of the whole call `pflips(weights, us.len(), rng)`: `none` = the call panics -/
def pflipsAll (weights : List α) (us : List α) : Option (List Nat) :=
  if weights.isEmpty then none else collect (pflips weights us)

/-! ## `ln_pflips` (func.rs:293-331) -/

/-- the cumulative weights of `ln_pflips`, func.rs:299-312 -/
def lnCws (lnw : List α) (normed : Bool) : List α :=
  let z := if normed then (0.0 : α) else Gen.logsumexp lnw
  scanL (fun state w => state + exp (w - z)) (0.0 : α) lnw

/-- `ln_pflips(ln_weights, n, normed, rng)`, `us` = the `n` variates `rng.sample(Open01)` (= `open01 word`).
    After the repair "ln_pflips scales the variate by the rounded running total like pflips":
    `total = cws.last().copied().unwrap_or(1.0)` (func.rs:315) and `r = rng.sample(Open01) * total` (func.rs:319).
    No emptiness assertion in the Rust code: an empty `ln_weights` panics at the first draw only. -/
def lnPflips (lnw : List α) (normed : Bool) (us : List α) : List (Option Nat) :=
  let cws := lnCws lnw normed
  let total := cws.getLast?.getD (1.0 : α)          -- func.rs:315
  us.map (fun u => Gen.catflip cws (u * total))     -- func.rs:319-326

def lnPflipsAll (lnw : List α) (normed : Bool) (us : List α) : Option (List Nat) :=
  collect (lnPflips lnw normed us)

/-! ## Gumbel-max samplers `ln_pflip` (func.rs:333-349), `gumbel_pflip` (func.rs:205-217) -/

/-- comparator of `ln_pflip` on items `(index, (ln_w, g))` with `g = ln(-ln u)`: the Gumbel key `ln_w - g`
    (func.rs:344, computed once per item in the Rust `map`; recomputed here, same value) compared with
    `k1.partial_cmp(k2).unwrap()` (func.rs:346) -/
def lnPflipCmp (x y : Nat × α × α) : Option Ordering :=
  pcmp (x.2.1 - x.2.2) (y.2.1 - y.2.2)

/-- `ln_pflip(ln_weights, _normed, rng)` after the repair "ln_pflip compares Gumbel keys ln_w - ln(-ln u)":
    `argmax_i ln_w_i - ln(-ln u_i)`; `us` = the variates `rng.sample(Open01)` (= `open01 word`), one per weight, drawn in
    index order (the `map` is lazy and `max_by` consumes the iterator front to back; last maximum wins).
    `none` = `unwrap()` of `None` (empty input) or of a `partial_cmp` with a NaN operand. -/
def lnPflip (lnw : List α) (us : List α) : Option Nat :=
  let items := (List.range lnw.length).zip (lnw.zip (us.map (fun u => ln (-(ln u)))))
  (maxBy lnPflipCmp items).map (·.1)

/-- comparator of `gumbel_pflip`, func.rs:212-214: `(*w2 * l1).partial_cmp(&(*w1 * l2)).unwrap()` on items
    `(index, (w, l))`, `l = ln u` -/
def gumbelCmp (x y : Nat × α × α) : Option Ordering :=
  pcmp (y.2.1 * x.2.2) (x.2.1 * y.2.2)

/-- `gumbel_pflip(weights, rng)`; `us` = the variates `rng.sample(Open01)` (= `open01 word`; `rng.gen::<f64>()` before the
    repair "gumbel_pflip draws its variates from the open unit interval"), func.rs:209;
    `none` = `assert!(!weights.is_empty())` or a NaN comparison -/
def gumbelPflip (weights : List α) (us : List α) : Option Nat :=
  let items := (List.range weights.length).zip (weights.zip (us.map ln))
  (maxBy gumbelCmp items).map (·.1)

/-! ## `argmax` (func.rs:360-380) on floats -/

/-- the `for (i, x) in xs.iter().enumerate().skip(1)` loop, func.rs:368-377 -/
def argmaxLoop : List (Nat × α) → α → List Nat → List Nat
  | [], _, ixs => ixs
  | (i, x) :: t, maxval, ixs =>
    match pcmp x maxval with
    | some .gt => argmaxLoop t x [i]
    | some .eq => argmaxLoop t maxval (ixs ++ [i])
    | _ => argmaxLoop t maxval ixs

def argmax (xs : List α) : List Nat :=
  match xs with
  | [] => []                            -- func.rs:361-362
  | [_] => [0]                          -- func.rs:363-364
  | x0 :: _ => argmaxLoop ((enumL xs).drop 1) x0 [0]

/-! ## `log_product` (func.rs:761-777) -/

/-- the loop of `log_product`; the early `return f64::NEG_INFINITY` is the `feq x 0` branch (`x.is_zero()` of `num::Zero`
    is `x == 0.0`) -/
def logProductLoop : List α → α → α → α
  | [], result, prod => result + ln prod                     -- func.rs:776
  | x :: t, result, prod =>
    let nextProd := x * prod                                 -- func.rs:765
    if isNormal nextProd then logProductLoop t result nextProd
    else if feq x (0.0 : α) then negInf                      -- func.rs:769-771
    else logProductLoop t (result + ln prod) x               -- func.rs:772-773

def logProduct (xs : List α) : α := logProductLoop xs (0.0 : α) (1.0 : α)

end Hand
