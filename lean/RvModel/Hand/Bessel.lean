import RvModel.Num
import RvModel.Prelude
import RvModel.Gen.Tables
/-!
  RvModel.Hand.Bessel — hand model of the *decision structure* of `rv::misc::bessel::bessel_iv`
  (`/repo/src/misc/bessel.rs:207-255`): which branch / which error for which `(v, z)`.  Mathlib-free, generic in the
  carrier.  The numerical kernels (`bessel_ikv_temme`, `bessel_ikv_asymptotic_uniform`, continued fractions, Chebyshev
  sums) are NOT modelled here — they are parameters of `besselIvWith`; their accuracy is explored against the oracle
  `RealLike.bessIv` by the correspondence check, not proved.
  (The translator rejects `bessel_iv`: "branch types differ: ('except','unknown') vs real".)
-/
namespace Hand.Bessel
open RealLike

/-- outcome of the dispatcher -/
inductive IvOut (α : Type) where
  /-- `bessel.rs:208-210`: a NaN argument ⇒ `Ok(f64::NAN)` -/
  | okNaN : IvOut α
  /-- `Err(BesselIvError::<variant>)` -/
  | err (variant : String) : IvOut α
  /-- `Ok(c)` with a constant (`:237` `Ok(1.0)`, `:241` `Ok(0.0)`) -/
  | okConst (c : α) : IvOut α
  /-- `:245-254`: `Ok(res * sign)` where `res = kernel(v, |z|)?.0`; kernel = `bessel_ikv_asymptotic_uniform` if
      `useAsymptotic` (`|v| > 50`, `:246-248`) else `bessel_ikv_temme` (`:249-251`); the kernel may itself fail
      (`Overflow`, `FailedToConverge`, `PrecisionLoss`, `Domain`) -/
  | compute (useAsymptotic : Bool) (v az sign : α) : IvOut α

variable {α : Type} [RealLike α]

/-- `:212-213`  `t = v.floor()`;  reflection test `v < 0.0 && (t - v).abs() < f64::EPSILON`
    (true exactly for negative orders within ε above an integer — on binary64: negative integers, and `-1+2⁻⁵³`-like
    neighbours) -/
def ivReflect (v : α) : Bool :=
  RealLike.lt v (0.0 : α) && RealLike.lt (RealLike.abs (RealLike.floor v - v)) (RealLike.epsilon : α)

/-- `:211-218`  the order after reflection `I_{-n} = I_n`: `(-v)` if reflected else `v` -/
def ivOrder (v : α) : α := if ivReflect v then -v else v

/-- `:211-218`  the companion `t`: `(-t)` if reflected else `t = floor v` -/
def ivFloor (v : α) : α := if ivReflect v then -(RealLike.floor v) else RealLike.floor v

/-- `:222`  `(t - v).abs() > f64::EPSILON` on the reflected pair: the order is not an integer -/
def ivNotInteger (v : α) : Bool :=
  RealLike.gt (RealLike.abs (ivFloor v - ivOrder v)) (RealLike.epsilon : α)

/-- `:226-230`  parity of the (integer) order `w`: `2.0.mul_add(-(w/2.0).floor(), w) > ε` ⇒ `-1.0` else `1.0` -/
def ivParitySign (w : α) : α :=
  if RealLike.gt (mulAdd (2.0 : α) (-(RealLike.floor (w / (2.0 : α)))) w) (RealLike.epsilon : α)
  then -(1.0 : α) else (1.0 : α)

/-- `:220-233`  the sign factor (only evaluated when the order passed the integer test) -/
def ivSign (v z : α) : α :=
  if RealLike.lt z (0.0 : α) then ivParitySign (ivOrder v) else (1.0 : α)

/-- `bessel_iv(v, z)`, `bessel.rs:207-255`, as a decision tree -/
def besselIvDispatch (v z : α) : IvOut α :=
  -- :208-210
  if RealLike.isNaN v || RealLike.isNaN z then .okNaN
  -- :220-224
  else if RealLike.lt z (0.0 : α) && ivNotInteger v then .err "OrderNotIntegerForNegativeZ"
  -- :235-243
  else if RealLike.feq z (0.0 : α) then
    if RealLike.feq (ivOrder v) (0.0 : α) then .okConst (1.0 : α)
    else if RealLike.lt (ivOrder v) (0.0 : α) then .err "Overflow"
    else .okConst (0.0 : α)
  -- :245-254
  else .compute (RealLike.gt (RealLike.abs (ivOrder v)) (50.0 : α)) (ivOrder v) (RealLike.abs z) (ivSign v z)

/-- the whole function, given the two numerical kernels (first component of their result, or an error variant) -/
def besselIvWith (asymptoticUniform temme : α → α → Except String α) (v z : α) : Except (Err α) α :=
  match besselIvDispatch v z with
  | .okNaN => .ok RealLike.nan
  | .err e => .error ⟨e, []⟩
  | .okConst c => .ok c
  | .compute useAsym w az sign =>
    match (if useAsym then asymptoticUniform w az else temme w az) with
    | .ok res => .ok (res * sign)
    | .error e => .error ⟨e, []⟩

/-- `bessel_iv` with the oracle `RealLike.bessIv` as kernel (never fails): what the implementation should return
    whenever its kernels converge -/
def besselIvOracle (v z : α) : Except (Err α) α :=
  besselIvWith (fun w az => .ok (RealLike.bessIv w az)) (fun w az => .ok (RealLike.bessIv w az)) v z

-- ---------------------------------------------------------------------------------------------------------
-- continuity of `i0` / `i1` at their internal switch `|x| = 8` (exact rational arithmetic on the coefficient tables)

/-- `chbevl(x, coeffs)` (`bessel.rs:126-138`) over exact rationals: Clenshaw recurrence
    `b0 ← x·b0 + c − b1` (`:134`, `mul_add` = exact here), result `0.5·(b0 − b2)` (`:137`).
    state = (b0, b1, b2); `coeffs[0]` initialises `b0` (`:127`), the loop skips it (`:131`). -/
def chbevlQ (x : Rat) (coeffs : List Rat) : Rat :=
  match coeffs with
  | [] => 0
  | c0 :: cs =>
    let st := cs.foldl (fun (s : Rat × Rat × Rat) c => (x * s.1 + c - s.2.1, s.1, s.2.1)) (c0, 0, 0)
    (1 / 2) * (st.1 - st.2.2)

/-- `i0` at `|x| = 8`, divided by `e⁸`: the branch `|x| ≤ 8` (`:144-146`, `y = 8·0.5 − 2 = 2`) -/
def i0A8 : Rat := chbevlQ 2 GenTables.BESSI0_COEFFS_A
/-- … and the branch `|x| > 8` (`:148-149`, argument `32/8 − 2 = 2`) before the division by `√8` -/
def i0B8 : Rat := chbevlQ 2 GenTables.BESSI0_COEFFS_B
/-- `i1` at `x = 8`, divided by `e⁸`: branch `≤ 8` (`:157-158`): `chbevl(2, A)·8` -/
def i1A8 : Rat := chbevlQ 2 GenTables.BESSI1_COEFFS_A * 8
/-- … branch `> 8` (`:160-161`) before the division by `√8` -/
def i1B8 : Rat := chbevlQ 2 GenTables.BESSI1_COEFFS_B

/-- `0 < a`, `0 < b` and `((1−t)·a)²·8 ≤ b² ≤ ((1+t)·a)²·8`, i.e. `|a·√8 − b| ≤ t·a·√8` -/
def switchSqOk (t a b : Rat) : Bool :=
  decide (0 < a) && decide (0 < b) && decide (((1 - t) * a) ^ 2 * 8 ≤ b ^ 2) && decide (b ^ 2 ≤ ((1 + t) * a) ^ 2 * 8)

end Hand.Bessel
