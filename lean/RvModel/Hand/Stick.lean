import RvModel.Prelude
/-!
  Hand.Stick — hand model of `experimental/stick_breaking_process/stick_sequence.rs` (`StickSequence`) and of
  `sbd.rs` (`StickBreakingDiscrete`).

  A `StickSequence` owns a seeded generator (`Xoshiro256Plus::seed_from_u64(seed)`) and a breaker
  (`UnitPowerLaw`); the only place the generator is used is `_Inner::extend` (stick_sequence.rs:64-70), which draws
  the next break.  The sequence of breaks the generator will ever produce is therefore a FIXED infinite stream
  `breaks : Nat → α` determined by `(breaker, seed)`; the model is parametric in it.  The state is the stored
  vector `_Inner.ccdf` (initially `[1.0]`) together with the number of breaks already drawn.

  Convention (stick_sequence.rs:66-68): `ccdf[n+1] = ccdf[n] * p` where `p` is the break itself, i.e.
  `ccdf n = Π_{i<n} bᵢ` (the break is the fraction of the remaining mass that is KEPT), `weight n = ccdf n − ccdf (n+1)`.

  Every public method takes the `RwLock` once per `with_inner`/`with_inner_mut` call; `ccdf`, `weight`, `weights`
  are TWO critical sections (`ensure_breaks` under the write guard, then a read).  `serve` models a whole method
  as one step, `mstep` the individual critical sections (for interleavings of threads).

  Mathlib-free, executable (driver entries in `Hand/DispatchC19.lean`).
-/
open RealLike

namespace Hand.Stick

/-! ### the sequence as a function of the break stream -/

/-- remaining mass after `n` breaks: `1.0 * b₀ * b₁ * … * b_{n-1}` (multiplied in this order) -/
def ccdfFn {α : Type} [RealLike α] (breaks : Nat → α) : Nat → α
  | 0 => (1.0 : α)
  | n + 1 => ccdfFn breaks n * breaks n

/-- weight of stick `n` -/
def weightFn {α : Type} [RealLike α] (breaks : Nat → α) (n : Nat) : α :=
  ccdfFn breaks n - ccdfFn breaks (n + 1)

/-! ### the state machine -/

/-- `_Inner` (stick_sequence.rs:49-52): the stored vector and the position of the generator in its stream -/
structure S (α : Type) where
  ccdf : List α
  drawn : Nat

/-- `_Inner::new` (stick_sequence.rs:55-62) -/
def init {α : Type} [RealLike α] : S α := ⟨[(1.0 : α)], 0⟩

/-- `_Inner::extend` (stick_sequence.rs:64-70): draw the next break, push `last * p` -/
def extend {α : Type} [RealLike α] (breaks : Nat → α) (s : S α) : S α :=
  ⟨s.ccdf ++ [s.ccdf.getLastD RealLike.nan * breaks s.drawn], s.drawn + 1⟩

/-- `n` calls of `extend` -/
def extendN {α : Type} [RealLike α] (breaks : Nat → α) : Nat → S α → S α
  | 0, s => s
  | n + 1, s => extendN breaks n (extend breaks s)

/-- `ensure_breaks(n)` (stick_sequence.rs:236-238): `while !(ccdf.len() > n) { extend }` -/
def ensureBreaks {α : Type} [RealLike α] (breaks : Nat → α) (n : Nat) (s : S α) : S α :=
  extendN breaks (n + 1 - s.ccdf.length) s

/-- `extend_until(pred)` (stick_sequence.rs:72-80) with fuel; `none` = the loop did not stop within `fuel`
    extensions (the Rust loop has no bound) -/
def extendUntil {α : Type} [RealLike α] (breaks : Nat → α) (pred : List α → Bool) : Nat → S α → Option (S α)
  | 0, s => if pred s.ccdf then some s else none
  | fuel + 1, s => if pred s.ccdf then some s else extendUntil breaks pred fuel (extend breaks s)

/-- `push_break(p)` (stick_sequence.rs:135-141): a caller-supplied break; the generator is NOT advanced -/
def pushBreak {α : Type} [RealLike α] (p : α) (s : S α) : S α :=
  ⟨s.ccdf ++ [s.ccdf.getLastD RealLike.nan * p], s.drawn⟩

/-- the read half of `weights` (stick_sequence.rs:304-316): ALL stored weights, `last_p` starting at `1.0` -/
def weightsOf {α : Type} [RealLike α] (cs : List α) : List α :=
  (scanL (fun (st : α × α) (p : α) => (p, st.1 - p)) ((1.0 : α), (0.0 : α)) (cs.drop 1)).map Prod.snd

/-- `position(|q| *q < p)` -/
def positionBelow {α : Type} [RealLike α] (p : α) : List α → Nat → Option Nat
  | [], _ => none
  | q :: qs, j => if RealLike.lt q p then some j else positionBelow p qs (j + 1)

/-- `usize` subtraction `j - 1` of a release build (wrapping; a debug build panics on `0 - 1`) -/
def subOneWrap (j : Nat) : Nat := wrapNat 64 (j + 2 ^ 64 - 1)

/-- inner `while` of `multi_invccdf_sorted` (sbd.rs:88-95) for one `(q0, q)`; fuel `i + 1` suffices -/
def multiInner {α : Type} [RealLike α] (ps : List α) (q0 : Nat) (q : α) : Nat → Nat → List Nat → Nat × List Nat
  | 0, i, res => (i, res)
  | fuel + 1, i, res =>
    if RealLike.gt (ps.getD i RealLike.nan) q then
      let res := res ++ [q0]
      if i == 0 then (i, res) else multiInner ps q0 q fuel (i - 1) res
    else (i, res)

/-- outer `for q in ccdf.iter().skip(1).enumerate()` (sbd.rs:87) -/
def multiOuter {α : Type} [RealLike α] (ps : List α) : List (Nat × α) → Nat → List Nat → List Nat
  | [], _, res => res
  | (q0, q) :: rest, i, res =>
    let r := multiInner ps q0 q (i + 1) i res
    multiOuter ps rest r.1 r.2

/-- the read half of `multi_invccdf_sorted` (sbd.rs:82-98) on the stored vector (`ps` non-empty) -/
def multiRead {α : Type} [RealLike α] (cs : List α) (ps : List α) : List Nat :=
  multiOuter ps (enumL (cs.drop 1)) (ps.length - 1) []

/-! ### whole methods as single steps -/

inductive Req (α : Type) where
  | ensure (n : Nat)          -- `ensure_breaks`
  | ccdf (n : Nat)            -- `StickSequence::ccdf`
  | weight (n : Nat)          -- `StickSequence::weight` = `StickBreakingDiscrete::f`
  | weights (n : Nat)         -- `StickSequence::weights`
  | numWeights                -- `num_weights_unstable`
  | sf (x : Nat)              -- `StickBreakingDiscrete::sf`
  | cdf (x : Nat)             -- `StickBreakingDiscrete::cdf`
  | invccdf (p : α)           -- `StickBreakingDiscrete::invccdf`
  | multi (p0 : α) (ps : List α)  -- `StickBreakingDiscrete::multi_invccdf_sorted(&[p0, ps…])` (non-empty slice)
  | push (p : α)              -- `push_break`

inductive Ans (α : Type) where
  | unit
  | val (x : α)
  | vals (xs : List α)
  | nat (n : Nat)
  | nats (ns : List Nat)
  | hang
  | panic

/-- one method call (all of its critical sections executed without interruption) -/
def serve {α : Type} [RealLike α] (breaks : Nat → α) (fuel : Nat) (s : S α) : Req α → Ans α × S α
  | .ensure n => (.unit, ensureBreaks breaks n s)
  | .ccdf n =>
    let s' := ensureBreaks breaks n s
    (.val (s'.ccdf.getD n RealLike.nan), s')
  | .weight n =>
    let s' := ensureBreaks breaks (n + 1) s
    (.val (s'.ccdf.getD n RealLike.nan - s'.ccdf.getD (n + 1) RealLike.nan), s')
  | .weights n =>
    let s' := ensureBreaks breaks n s
    (.vals (weightsOf s'.ccdf), s')
  | .numWeights => (.nat (s.ccdf.length - 1), s)
  | .sf x =>
    let s' := ensureBreaks breaks (x + 1) s
    (.val (s'.ccdf.getD (x + 1) RealLike.nan), s')
  | .cdf x =>
    let s' := ensureBreaks breaks (x + 1) s
    (.val ((1.0 : α) - s'.ccdf.getD (x + 1) RealLike.nan), s')
  | .invccdf p =>
    -- sbd.rs:45-51: extend until `last < p`, then `position(q < p).unwrap() - 1`
    match extendUntil breaks (fun cs => RealLike.lt (cs.getLastD RealLike.nan) p) fuel s with
    | none => (.hang, s)
    | some s' => match positionBelow p s'.ccdf 0 with
      | none => (.panic, s')
      | some j => (.nat (subOneWrap j), s')
  | .multi p0 ps =>
    -- sbd.rs:77-100.  An EMPTY slice is outside the model: `ps.first().unwrap()` panics inside the predicate, i.e.
    -- under the write guard, which poisons the `RwLock`: every later call on every clone panics.
    match extendUntil breaks (fun cs => RealLike.lt (cs.getLastD RealLike.nan) p0) fuel s with
    | none => (.hang, s)
    | some s' => (.nats (multiRead s'.ccdf (p0 :: ps)), s')
  | .push p => (.unit, pushBreak p s)

/-- answers of a sequence of calls -/
def serveAll {α : Type} [RealLike α] (breaks : Nat → α) (fuel : Nat) : S α → List (Req α) → List (Ans α)
  | _, [] => []
  | s, r :: rs => (serve breaks fuel s r).1 :: serveAll breaks fuel (serve breaks fuel s r).2 rs

/-! ### individual critical sections (threads interleave at this granularity) -/

inductive MOp where
  | ensure (n : Nat)       -- write guard: `extend_until(len > n)`
  | readCcdf (n : Nat)     -- read guard: `ccdf[n]`
  | readWeight (n : Nat)   -- read guard: `ccdf[n] - ccdf[n+1]`

/-- one critical section; a read of an index that is not materialised is an index panic (`none`) -/
def mstep {α : Type} [RealLike α] (breaks : Nat → α) (s : S α) : MOp → Option α × S α
  | .ensure n => (none, ensureBreaks breaks n s)
  | .readCcdf n => (s.ccdf[n]?, s)
  | .readWeight n => ((s.ccdf[n]?).bind (fun a => (s.ccdf[n + 1]?).map (fun b => a - b)), s)

def mrun {α : Type} [RealLike α] (breaks : Nat → α) : S α → List MOp → S α
  | s, [] => s
  | s, o :: os => mrun breaks (mstep breaks s o).2 os

/-! ### `StickBreakingDiscrete` as functions of the ccdf sequence `c n = ccdf n` -/
namespace Sbd

/-- `f(n) = sticks.weight(n)` (sbd.rs:213-216) -/
def f {α : Type} [RealLike α] (c : Nat → α) (n : Nat) : α := c n - c (n + 1)
/-- `sf(x) = sticks.ccdf(x + 1)` (sbd.rs:133-135) -/
def sf {α : Type} [RealLike α] (c : Nat → α) (x : Nat) : α := c (x + 1)
/-- `cdf(x) = 1.0 - sf(x)` (sbd.rs:149-151) -/
def cdf {α : Type} [RealLike α] (c : Nat → α) (x : Nat) : α := (1.0 : α) - sf c x

/-- least `j ≥ start` with `c j < p`, searching `fuel + 1` indices -/
def firstBelow {α : Type} [RealLike α] (c : Nat → α) (p : α) : Nat → Nat → Option Nat
  | 0, j => if RealLike.lt (c j) p then some j else none
  | fuel + 1, j => if RealLike.lt (c j) p then some j else firstBelow c p fuel (j + 1)

/-- `invccdf(p)` (sbd.rs:45-51) as a function of the ccdf sequence: first index whose ccdf is below `p`, minus one
    (wrapping); `none` = no such index among the first `fuel + 1` -/
def invccdf {α : Type} [RealLike α] (c : Nat → α) (fuel : Nat) (p : α) : Option Nat :=
  (firstBelow c p fuel 0).map subOneWrap

/-- `invcdf(p) = invccdf(1.0 - p)` (sbd.rs:167-169) -/
def invcdf {α : Type} [RealLike α] (c : Nat → α) (fuel : Nat) (p : α) : Option Nat :=
  invccdf c fuel ((1.0 : α) - p)

end Sbd

end Hand.Stick
