import RvModel.Wire
import RvModel.FloatInst
import RvModel.Hand.Kernel
/-
  Driver entries of property C16 (Float carrier): the hand model `Hand/Kernel.lean` of the covariance kernels.
  The SAME lines are understood by the harness (`harness/src/manual_c16.rs`), which runs the real code.

  kernel tree (prefix tokens):   const <c> | rbf <ℓ> | seard L<k> <ℓ…> | ess <ℓ> <p> | rq <s> <a> | matern <ν> <ℓ>
                                 | white <σ> | add <tree> <tree> | mul <tree> <tree>
  point set:                     <n> <d> <n·d coordinates, row-major>

    kernel.cov <kind> <tree> <X> <X'>              ↦  L<n·m> row-major covariance(X, X')                       | PANIC
    kernel.diag <kind> <tree> <X>                  ↦  L<len> diag(X)                                           | PANIC
    kernel.cov_with_grad <kind> <tree> <X>         ↦  L<n·n> covariance  L<p> (L<n·n> slice)×p   (row-major)    | PANIC
    kernel.parameters <kind> <tree>                ↦  L<p> parameters()
    kernel.n_parameters <kind> <tree>              ↦  <p>
    kernel.reparameterize <kind> <tree> L<k> <θ…>  ↦  L<p> parameters() of the new kernel | E:<Variant> <n> | E:ParameterOutOfBounds | PANIC
    kernel.consume_parameters <kind> <tree> L<k> <θ…>  ↦  L<p> parameters() of the new kernel  L<r> unconsumed values | E:… | PANIC
    kernel.roundtrip <kind> <tree> <X>             ↦  k' = reparameterize(parameters()):  L<p> parameters() of k'  L<n·n> k'.covariance(X, X) | E:… | PANIC
    spec.kernel.matern_closed <kind> <sel> <ℓ> <X> <X'>  ↦  L<n·m> textbook Matérn covariance, ν = 1/2 (sel 0), 3/2 (1), 5/2 (2)   (driver only)
-/
namespace HandDispatchC16
open Wire Hand.Kernel

/-- prefix reader of a kernel tree; `fuel` bounds the nesting depth (the token list is finite) -/
def rdTree : Nat → Rd (K Float)
  | 0 => throw "tree too deep"
  | fuel + 1 => do
    let t ← Wire.next
    if t == "const" then do let c ← rdF; pure (.const c)
    else if t == "rbf" then do let l ← rdF; pure (.rbf l)
    else if t == "seard" then do let ls ← rdL rdF; pure (.seard ls)
    else if t == "ess" then do let l ← rdF; let p ← rdF; pure (.ess l p)
    else if t == "rq" then do let s ← rdF; let a ← rdF; pure (.rq s a)
    else if t == "matern" then do let nu ← rdF; let l ← rdF; pure (.matern nu l)
    else if t == "white" then do let s ← rdF; pure (.white s)
    else if t == "add" then do let a ← rdTree fuel; let b ← rdTree fuel; pure (.add a b)
    else if t == "mul" then do let a ← rdTree fuel; let b ← rdTree fuel; pure (.mul a b)
    else throw s!"bad kernel token {t}"

def rdK : Rd (K Float) := rdTree 64

/-- `<n> <d> <row-major coordinates>` -/
def rdPts : Rd (List (List Float)) := do
  let n ← rdN; let d ← rdN
  rdRep (rdRep rdF d) n

def wrKErr : KErr → String
  | .missing n => s!"E:MissingParameters {n}"
  | .extraneous n => s!"E:ExtraneousParameters {n}"
  | .outOfBounds => "E:ParameterOutOfBounds"
  | .panic => "PANIC"

def wrMat (m : List (List Float)) : String := wrL wrF m.flatten

def tableC16 : List (String × Rd String) := [
  ("kernel.cov", do
    let _ ← Wire.next; let k ← rdK; let X ← rdPts; let X' ← rdPts
    match covMatrix k X X' with
    | .ok m => pure (wrMat m)
    | .error e => pure (wrKErr e)),
  ("kernel.diag", do
    let _ ← Wire.next; let k ← rdK; let X ← rdPts
    match diag k X with
    | .ok v => pure (wrL wrF v)
    | .error e => pure (wrKErr e)),
  ("kernel.cov_with_grad", do
    let _ ← Wire.next; let k ← rdK; let X ← rdPts
    match covWithGrad k X with
    | .ok (c, g) => pure (wrMat c ++ " " ++ wrL wrMat g)
    | .error e => pure (wrKErr e)),
  ("kernel.parameters", do
    let _ ← Wire.next; let k ← rdK
    pure (wrL wrF (parameters k))),
  ("kernel.n_parameters", do
    let _ ← Wire.next; let k ← rdK
    pure (wrN (nParameters k))),
  ("kernel.reparameterize", do
    let _ ← Wire.next; let k ← rdK; let ps ← rdL rdF
    match reparameterize k ps with
    | .ok k' => pure (wrL wrF (parameters k'))
    | .error e => pure (wrKErr e)),
  ("kernel.consume_parameters", do
    let _ ← Wire.next; let k ← rdK; let ps ← rdL rdF
    match consumeParameters k ps with
    | .ok (k', rest) => pure (wrL wrF (parameters k') ++ " " ++ wrL wrF rest)
    | .error e => pure (wrKErr e)),
  ("kernel.roundtrip", do
    let _ ← Wire.next; let k ← rdK; let X ← rdPts
    match roundTrip k X with
    | .ok (ps, m) => pure (wrL wrF ps ++ " " ++ wrMat m)
    | .error e => pure (wrKErr e)),
  ("spec.kernel.matern_closed", do
    let _ ← Wire.next; let sel ← rdN; let l ← rdF; let X ← rdPts; let X' ← rdPts
    pure (wrMat (X.map (fun x => X'.map (fun x' => maternClosed sel l x x')))))
]

end HandDispatchC16
