import RvModel.Hand.Dispatch
import RvModel.Spec.C12
import RvModel.Hand.C12
/- dispatch entries of the textbook quantile functions (C12); the "observation" argument is the probability p.
   `spec.DiscreteUniform.invcdf` / `hand.DiscreteUniform.invcdf` answer an integer. -/
namespace HandDispatch
open GenDispatch Wire

def tableC12 : List (String × Rd String) := [
  ("spec.Exponential.invcdf_real", dx rd_Exponential Spec.Exponential.quantile),
  ("spec.Uniform.invcdf_real", dx rd_Uniform Spec.Uniform.quantile),
  ("spec.Cauchy.invcdf_real", dx rd_Cauchy Spec.Cauchy.quantile),
  ("spec.Kumaraswamy.invcdf_real", dx rd_Kumaraswamy Spec.Kumaraswamy.quantile),
  ("spec.UnitPowerLaw.invcdf_real", dx rd_UnitPowerLaw Spec.UnitPowerLaw.quantile),
  ("spec.Gaussian.invcdf_real", dx rd_Gaussian Spec.Gaussian.quantile),
  ("spec.LogNormal.invcdf_real", dx rd_LogNormal Spec.LogNormal.quantile),
  ("spec.DiscreteUniform.invcdf", do
    let _ ← Wire.next; let d ← rd_DiscreteUniform; let p ← rdF; pure (wrI (Spec.DiscreteUniform.quantile d p))),
  ("hand.DiscreteUniform.invcdf", do
    let _ ← Wire.next; let d ← rd_DiscreteUniform; let p ← rdF; pure (wrI (Hand.DiscreteUniform.invcdf d p))),
  -- the generated cdf evaluated at an integer observation (X = T)
  ("hand.DiscreteUniform.cdf", do
    let _ ← Wire.next; let d ← rd_DiscreteUniform; let x ← rdI; pure (wrF (Gen.DiscreteUniform.cdf_real d (RealLike.ofIntR x))))
]

end HandDispatch
