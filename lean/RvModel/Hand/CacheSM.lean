import RvModel.Gen.Facts
/-!
  Hand.CacheSM — generic state machine of a parameter record with lazily filled caches
  (`OnceLock`-style) and setters that write parameters and reset caches.  Mathlib-free.

  Fields are numbered as in `GenFacts` (position in the Rust struct).  The *facts* (which parameter fields a
  cache initialiser reads, which fields a setter writes, which caches it resets) are extracted from the Rust
  source on every run; the theorems in `Props/C09A.lean` show that those facts imply freshness of every query
  for every finite history — and, every operation being atomic (`OnceLock::get_or_init`, `&mut self`), for
  every interleaving of threads.
-/

namespace CacheSM

/-- static description of one type -/
structure Spec (V : Type) where
  /-- cache ↦ parameter fields its initialiser reads -/
  reads : Nat → List Nat
  /-- cache initialiser as a function of the parameter valuation -/
  init : Nat → (Nat → V) → V

structure State (V : Type) where
  params : Nat → V
  stored : Nat → Option V

inductive Op (V : Type) where
  /-- a setter: assigns the listed fields, empties the listed caches -/
  | set (writes : List (Nat × V)) (resets : List Nat)
  /-- a query that goes through cache `c` (fills it on first use) -/
  | query (c : Nat)

def assign {V : Type} (p : Nat → V) : List (Nat × V) → (Nat → V)
  | [] => p
  | (f, v) :: ws => assign (fun g => if g = f then v else p g) ws

def step {V : Type} (sp : Spec V) (s : State V) : Op V → State V × Option V
  | .set ws rs =>
    ({ params := assign s.params ws, stored := fun c => if c ∈ rs then none else s.stored c }, none)
  | .query c =>
    match s.stored c with
    | some v => (s, some v)
    | none => let v := sp.init c s.params
              ({ s with stored := fun d => if d = c then some v else s.stored d }, some v)

/-- run a history, collecting (query result, value a fresh object would give) pairs -/
def run {V : Type} (sp : Spec V) : State V → List (Op V) → List (Option V × Option V)
  | _, [] => []
  | s, op :: ops =>
    let r := step sp s op
    let fresh := match op with
      | .query c => some (sp.init c s.params)
      | .set _ _ => none
    (r.2, fresh) :: run sp r.1 ops

/-- a setter is sound w.r.t. the read sets: every cache that reads a written field is reset -/
def SoundOp {V : Type} (sp : Spec V) : Op V → Prop
  | .set ws rs => ∀ c, (∃ f, f ∈ sp.reads c ∧ f ∈ ws.map Prod.fst) → c ∈ rs
  | .query _ => True

/-- every stored value is what the initialiser gives on the current parameters -/
def Inv {V : Type} (sp : Spec V) (s : State V) : Prop :=
  ∀ c v, s.stored c = some v → v = sp.init c s.params

/-- initialisers depend on the parameters only through their read set -/
def Dep {V : Type} (sp : Spec V) : Prop :=
  ∀ c p p', (∀ f, f ∈ sp.reads c → p f = p' f) → sp.init c p = sp.init c p'

end CacheSM

/-! ### decidable soundness of extracted facts -/
namespace GenFacts

/-- every setter resets every cache whose initialiser reads a field it writes, and recomputes every
    eagerly derived field whose inputs it writes -/
def soundB (tf : TypeFacts) : Bool :=
  tf.setters.all (fun s =>
    tf.cacheReads.all (fun cr => !(cr.2.any (fun f => s.2.1.contains f)) || s.2.2.contains cr.1) &&
    tf.derived.all (fun dv => !(dv.2.any (fun f => s.2.1.contains f)) || s.2.1.contains dv.1))

/-- equality compares exactly the parameter fields: a hand-written `PartialEq` lists all of them, or the
    derived one is used on a type without cache fields -/
def eqB (tf : TypeFacts) : Bool :=
  match tf.eqFields with
  | some fs => tf.params.all (fun p => fs.contains p) && fs.all (fun f => tf.params.contains f)
  | none => !tf.derivedEq || tf.caches.isEmpty

/-- serialisation: every cache field is skipped, every parameter field is serialised, nothing derived is -/
def serdeB (tf : TypeFacts) : Bool :=
  !tf.serdeDerive || tf.serdeProxy ||   -- proxies (`from`/`into`) serialise a dedicated parameter type

  (tf.caches.all (fun c => tf.skipped.contains c) &&
   tf.params.all (fun p => tf.serialized.contains p || (tf.derived.any (fun d => d.1 == p))) &&
   tf.derived.all (fun d => !tf.serialized.contains d.1))

end GenFacts
