import RvModel.Wire
import RvModel.Hand.Ks
import RvModel.Hand.Empirical
import RvModel.Hand.Mardia
import RvModel.Spec.C20
/- driver entries of the C20 hand models on `Float` — same op names and argument formats as
   `harness/src/manual_c20.rs` (see its header and props/C20_notes.md).  Every entry consumes the kind token first. -/
namespace HandDispatch
open Wire Hand

namespace C20

/-- the closure the harness hands to `ks_test`: value at the first sample point with the same bit pattern -/
def lookup (xs vals : List Float) (x : Float) : Float :=
  match (xs.zip vals).find? (fun p => p.1.toBits == x.toBits) with
  | some p => p.2
  | none => FloatImpl.nan

def rdMode : Rd KsMode := do
  let t ← Wire.next
  if t == "exact" then pure .exact else if t == "asymptotic" then pure .asymptotic
  else if t == "auto" then pure .auto else throw s!"bad mode {t}"

def rdAlt : Rd KsAlternative := do
  let t ← Wire.next
  if t == "two_sided" then pure .twoSided else if t == "less" then pure .less
  else if t == "greater" then pure .greater else throw s!"bad alternative {t}"

def wr2 (r : Float × Float) : String := wrF r.1 ++ " " ++ wrF r.2

def wrTwo : Except String (Float × Float) → String
  | .ok r => wr2 r
  | .error e => e

/-- the sample of `ks_two_sample.ij`: pooled order `j` ys, `i` xs, `n-j` ys, `m-i` xs, values 0,1,2,… -/
def ijSample (m n i j : Nat) : List Float × List Float :=
  let f (k : Nat) : Float := Float.ofNat k
  let ys1 := (List.range j).map f
  let xs1 := (List.range' j i).map f
  let ys2 := (List.range' (j + i) (n - j)).map f
  let xs2 := (List.range' (i + n) (m - i)).map f
  (xs1 ++ xs2, ys1 ++ ys2)

def rows (d : Nat) (l : List Float) : List (List Float) :=
  if d = 0 then [] else (List.range (l.length / d)).map (fun r => (l.drop (r * d)).take d)

end C20

open C20 in
def tableC20 : List (String × Rd String) := [
  ("ks_test", do
    let _ ← Wire.next; let xs ← rdL rdF; let vals ← rdL rdF
    pure (match ksTest xs (lookup xs vals) with | none => "ABORT" | some r => wr2 r)),
  -- the implementation side can only observe `1 - ks_cdf(n, d)` (private function, reached through `ks_test`)
  ("ks_cdf", do
    let _ ← Wire.next; let n ← rdN; let d ← rdF
    pure (match ksCdf? n (Float.abs d) with | none => "ABORT" | some c => wrF (1.0 - c))),
  ("ks_two_sample", do
    let _ ← Wire.next; let xs ← rdL rdF; let ys ← rdL rdF; let mode ← rdMode; let alt ← rdAlt
    pure (wrTwo (ksTwoSample xs ys mode alt))),
  ("ks_two_sample.ij", do
    let _ ← Wire.next; let m ← rdN; let n ← rdN; let i ← rdN; let j ← rdN; let mode ← rdMode; let alt ← rdAlt
    let s := ijSample m n i j
    pure (wrTwo (ksTwoSample s.1 s.2 mode alt))),
  ("empirical.cdf", do
    let _ ← Wire.next; let xs ← rdL rdF; let x ← rdF
    pure (match Empirical.new? xs with | none => "PANIC" | some e => wrF (Empirical.cdf e x))),
  ("empirical.mean", do
    let _ ← Wire.next; let xs ← rdL rdF
    pure (match Empirical.new? xs with | none => "PANIC" | some e => wrO wrF (Gen.Empirical.mean_real e))),
  ("empirical.variance", do
    let _ ← Wire.next; let xs ← rdL rdF
    pure (match Empirical.new? xs with | none => "PANIC" | some e => wrO wrF (Gen.Empirical.variance_real e))),
  ("empirical.err", do
    let _ ← Wire.next; let xs ← rdL rdF; let ys ← rdL rdF
    pure (match Empirical.new? xs, Empirical.new? ys with
      | some e, some f => wrF (Empirical.err e f)
      | _, _ => "PANIC")),
  ("empirical.range", do
    let _ ← Wire.next; let xs ← rdL rdF
    pure (match Empirical.new? xs with | none => "PANIC" | some e => wr2 e.range)),
  -- the three public constructors (`new`, `from_params` on an arbitrary parameter vector, `emit_params ∘ from_params`)
  ("empirical.queries", do
    let _ ← Wire.next; let ctor ← Wire.next; let xs ← rdL rdF; let qs ← rdL rdF
    let e? : Option (Gen.Empirical Float) :=
      if ctor == "new" then Empirical.new? xs
      else if ctor == "from_params" then Empirical.fromParams? { xs := xs }
      else (Empirical.new? xs).bind (fun e => Empirical.fromParams? (Gen.Empirical.emit_params e))
    pure (match e? with
      | none => "PANIC"
      | some e => String.intercalate " " [wrL wrF (qs.map (Empirical.cdf e)), wrO wrF (Gen.Empirical.mean_real e),
          wrO wrF (Gen.Empirical.variance_real e), wr2 e.range])),
  ("mardia", do
    let _ ← Wire.next; let n ← rdN; let d ← rdN; let data ← rdL rdF
    let xs := if d = 0 then List.replicate n [] else rows d data
    pure (match mardia? xs with | none => "PANIC" | some r => wr2 r)),
  -- ---- model-side only (no implementation counterpart: private functions / specifications)
  ("c20.ks_cdf_raw", do
    let _ ← Wire.next; let n ← rdN; let d ← rdF
    pure (match ksCdf? n d with | none => "ABORT" | some c => wrF c)),
  ("c20.ksD", do   -- the TRUE two-sided distance for the same inputs as `ks_test`
    let _ ← Wire.next; let xs ← rdL rdF; let vals ← rdL rdF
    pure (wrF (Spec.C20.ksD ((sortR xs).map (lookup xs vals))))),
  ("c20.ecdf", do  -- #{xᵢ ≤ x}/n
    let _ ← Wire.next; let xs ← rdL rdF; let x ← rdF
    pure (wrF (Spec.C20.ecdf xs x))),
  ("c20.paths_outside_w64", do
    let _ ← Wire.next; let m ← rdN; let n ← rdN; let g ← rdN; let h ← rdF
    pure (wrN (pathsOutside (2 ^ 64) m n g h))),
  ("c20.paths_outside_exact", do
    let _ ← Wire.next; let m ← rdN; let n ← rdN; let g ← rdN; let h ← rdN
    pure (wrN (pathsOutsideNat m n g h))),
  ("c20.paths_outside_spec", do
    let _ ← Wire.next; let m ← rdN; let n ← rdN; let g ← rdN; let h ← rdN
    pure (wrN (Spec.C20.pathsOutside m n g h))),
  ("c20.paths_inside_two_spec", do
    let _ ← Wire.next; let m ← rdN; let n ← rdN; let g ← rdN; let h ← rdN
    pure (wrN (Spec.C20.pathsInsideTwo m n g h))),
  ("c20.paths_inside_proportion", do
    let _ ← Wire.next; let m ← rdN; let n ← rdN; let g ← rdN; let h ← rdF
    pure (match pathsInsideProportion m n g h with | none => "PANIC" | some q => wrF q)),
  ("c20.binomial_w64", do
    let _ ← Wire.next; let n ← rdN; let k ← rdN
    pure (wrN (binomialW (2 ^ 64) n k))),
  ("c20.choose", do
    let _ ← Wire.next; let n ← rdN; let k ← rdN
    pure (wrN (Spec.C20.choose n k))),
  ("c20.x2_stat", do
    let _ ← Wire.next; let obs ← rdL rdN; let ps ← rdL rdF
    pure (wrF (Spec.C20.x2Stat obs ps)))
]

end HandDispatch
