import RvModel.Prelude
import RvModel.FloatInst
/-
  RvModel.Wire — token reader / writer for the one-line-per-case protocol between the Rust harness,
  the Python checker and the Lean driver `rvdrv`.

  tokens:  x<16 hex digits>  f64 bit pattern      <decimal>  Nat / Int      T | F  Bool
           L<n> tok*n        list                  N | S tok   Option        D list | Q stat   DataOrSuffStat
  results: the same tokens; `E:<Variant>` for a returned error; the harness may also print PANIC.
-/

abbrev Rd := StateT (List String) (Except String)

namespace Wire

def next : Rd String := do
  match (← get) with
  | [] => throw "eof"
  | t :: ts => set ts; pure t

def hexVal (c : Char) : Option Nat :=
  if '0' ≤ c ∧ c ≤ '9' then some (c.toNat - '0'.toNat)
  else if 'a' ≤ c ∧ c ≤ 'f' then some (c.toNat - 'a'.toNat + 10)
  else if 'A' ≤ c ∧ c ≤ 'F' then some (c.toNat - 'A'.toNat + 10)
  else none

def parseHex (s : String) : Option Nat :=
  s.toList.foldl (fun acc c => match acc, hexVal c with
    | some a, some d => some (a * 16 + d)
    | _, _ => none) (some 0)

def rdF : Rd Float := do
  let t ← next
  if t == "xNaN" then return (0.0 / 0.0 : Float)
  match t.toList with
  | 'x' :: rest => match parseHex (String.ofList rest) with
    | some n => pure (Float.ofBits n.toUInt64)
    | none => throw s!"bad float {t}"
  | _ => throw s!"bad float {t}"

def rdN : Rd Nat := do
  let t ← next
  match t.toNat? with
  | some n => pure n
  | none => throw s!"bad nat {t}"

def rdI : Rd Int := do
  let t ← next
  match t.toInt? with
  | some n => pure n
  | none => throw s!"bad int {t}"

def rdB : Rd Bool := do
  let t ← next
  if t == "T" then pure true else if t == "F" then pure false else throw s!"bad bool {t}"

def rdRep {β : Type} (r : Rd β) : Nat → Rd (List β)
  | 0 => pure []
  | n + 1 => do let x ← r; let xs ← rdRep r n; pure (x :: xs)

def rdL {β : Type} (r : Rd β) : Rd (List β) := do
  let t ← next
  match t.toList with
  | 'L' :: rest => match (String.ofList rest).toNat? with
    | some n => rdRep r n
    | none => throw s!"bad list header {t}"
  | _ => throw s!"bad list header {t}"

def rdO {β : Type} (r : Rd β) : Rd (Option β) := do
  let t ← next
  if t == "N" then pure none else if t == "S" then do let x ← r; pure (some x) else throw s!"bad option {t}"

def rdDos {β σ : Type} (rx : Rd β) (rs : Rd σ) : Rd (DataOrSuffStat β σ) := do
  let t ← next
  if t == "D" then do let xs ← rdL rx; pure (.data xs)
  else if t == "Q" then do let s ← rs; pure (.suffStat s)
  else throw s!"bad DataOrSuffStat {t}"

def rdPair {β γ : Type} (a : Rd β) (b : Rd γ) : Rd (β × γ) := do
  let x ← a; let y ← b; pure (x, y)

def rdUnit : Rd Unit := pure ()

/-- bit width of an observation kind token (`u8` … `isize`); 64 for anything else -/
def kindBits (k : String) : Nat :=
  if k == "u8" || k == "i8" then 8 else if k == "u16" || k == "i16" then 16
  else if k == "u32" || k == "i32" then 32 else 64

-- writers ------------------------------------------------------------------------------------------

def hexDigit (n : Nat) : Char := if n < 10 then Char.ofNat (48 + n) else Char.ofNat (87 + n)

def hex16 (n : Nat) : String :=
  String.ofList ((List.range 16).map (fun i => hexDigit ((n >>> (4 * (15 - i))) % 16)))

def wrF (x : Float) : String :=
  if x.isNaN then "xNaN" else "x" ++ hex16 x.toBits.toNat

def wrN (n : Nat) : String := toString n
def wrI (n : Int) : String := toString n
def wrB (b : Bool) : String := if b then "T" else "F"
def wrL {β : Type} (w : β → String) (xs : List β) : String :=
  String.intercalate " " (s!"L{xs.length}" :: xs.map w)
def wrO {β : Type} (w : β → String) : Option β → String
  | none => "N"
  | some x => "S " ++ w x
def wrE {β : Type} (w : β → String) : Except (Err Float) β → String
  | .ok x => w x
  | .error e => "E:" ++ e.variant
def wrPair {β γ : Type} (a : β → String) (b : γ → String) (p : β × γ) : String := a p.1 ++ " " ++ b p.2
def wrUnit (_ : Unit) : String := "U"

end Wire
