/-
  RvModel.Num — the numeric carrier class every model definition is generic over.

  Mathlib-free (so the driver `rvdrv` links as a `lean_exe`).  Instances:
    * `Float`  (RvModel/FloatInst.lean)  IEEE binary64, executable: correspondence + search
    * `R`      (RvModel/RealInst.lean)   exact reals (wrapper around ℝ): algebra / calculus theorems
    * `X`      (RvModel/ExtInst.lean)    IEEE special values over exact reals: totality / validation theorems

  Every primitive that rv's numeric code uses appears here once; the translator `rs2lean` maps Rust
  method calls onto these names (table in rs2lean/emit.py).
-/

class RealLike (α : Type) extends Add α, Sub α, Mul α, Div α, Neg α where
  ofScientific : Nat → Bool → Nat → α
  ofNatR : Nat → α
  ofIntR : Int → α
  /-- Rust `x as usize` / `as u32` on a float: truncation toward zero, saturating, NaN ↦ 0 -/
  toNat : α → Nat
  /-- Rust `x as i32`-style cast on a float -/
  toInt : α → Int
  ln : α → α
  exp : α → α
  sqrt : α → α
  abs : α → α
  ln1p : α → α
  expm1 : α → α
  floor : α → α
  ceil : α → α
  round : α → α
  trunc : α → α
  sin : α → α
  cos : α → α
  tan : α → α
  atan : α → α
  acos : α → α
  asin : α → α
  sinh : α → α
  cosh : α → α
  tanh : α → α
  signum : α → α
  log2 : α → α
  log10 : α → α
  exp2 : α → α
  powf : α → α → α
  powi : α → Int → α
  max : α → α → α
  min : α → α → α
  remEuclid : α → α → α
  /-- `special::Gamma::ln_gamma(x).0` -/
  lgamma : α → α
  /-- `special::Gamma::gamma` -/
  gamma : α → α
  digamma : α → α
  /-- `a.ln_beta(b)` -/
  lnBeta : α → α → α
  /-- `x.inc_gamma(a)` = regularised lower incomplete gamma P(a, x); argument order (x, a) as in Rust -/
  incGamma : α → α → α
  /-- `x.inc_beta(a, b, ln_beta_ab)` = regularised incomplete beta I_x(a,b); argument order as in Rust -/
  incBeta : α → α → α → α → α
  /-- `special::Error::error` -/
  erf : α → α
  /-- `special::Error::compl_error` -/
  erfc : α → α
  /-- `special::Error::inv_error` -/
  erfInv : α → α
  /-- modified Bessel function of the first kind, order 0 / 1 / real order (`misc::bessel`) — abstract
      in distribution models; the code of `misc/bessel.rs` itself is modelled in Hand/Bessel.lean -/
  bessI0 : α → α
  bessI1 : α → α
  bessIv : α → α → α
  lt : α → α → Bool
  le : α → α → Bool
  feq : α → α → Bool
  isFinite : α → Bool
  isNaN : α → Bool
  isInfinite : α → Bool
  isNormal : α → Bool
  -- named constants: exact in the real instances, the binary64 literal in `Float`
  halfLn2Pi : α
  halfLn2PiE : α
  halfLnPi : α
  lnPi : α
  ln2Pi : α
  ln2PiE : α
  eulerGamma : α
  lnLn2 : α
  sqrtPi : α
  ln2 : α
  ln10 : α
  pi : α
  sqrt2 : α
  e : α
  frac1Pi : α
  frac1Sqrt2 : α
  fracPi2 : α
  negInf : α
  posInf : α
  nan : α
  epsilon : α
  maxFinite : α
  minPositive : α

namespace RealLike
variable {α : Type} [RealLike α]
instance : OfScientific α := ⟨RealLike.ofScientific⟩
@[reducible] def gt (a b : α) : Bool := lt b a
@[reducible] def ge (a b : α) : Bool := le b a
@[reducible] def fne (a b : α) : Bool := !feq a b
@[reducible] def recip (a : α) : α := (1.0 : α) / a
/-- `x.log(base)` -/
@[reducible] def logb (x b : α) : α := ln x / ln b
end RealLike

open RealLike

/-- Rust `a.mul_add(b, c)` over exact arithmetic: `a * b + c` (binary64 fuses the rounding; not modelled). -/
@[reducible] def mulAdd {α} [RealLike α] (a b c : α) : α := a * b + c

/-- sum of a list, left fold from 0 — Rust `iter().sum::<f64>()` -/
def sumL {α} [RealLike α] (xs : List α) : α := xs.foldl (· + ·) (RealLike.ofNatR 0)

/-- product of a list, left fold from 1 — Rust `iter().product::<f64>()` -/
def prodL {α} [RealLike α] (xs : List α) : α := xs.foldl (· * ·) (RealLike.ofNatR 1)

/-- wrapping cast of a natural number to an unsigned integer type of `bits` bits (`n as u8` …) -/
def wrapNat (bits : Nat) (n : Nat) : Nat := n % (2 ^ bits)

/-- wrapping cast of an integer to a signed type of `bits` bits (`n as i8` …) -/
def wrapInt (bits : Nat) (n : Int) : Int :=
  let m : Int := (2 : Int) ^ bits
  let r := n % m
  if r ≥ m / 2 then r - m else r
