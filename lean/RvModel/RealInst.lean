import RvModel.Num
import Mathlib.Analysis.SpecialFunctions.Gamma.Basic
import Mathlib.Analysis.SpecialFunctions.Gamma.Beta
import Mathlib.Analysis.SpecialFunctions.Log.Base
import Mathlib.Analysis.SpecialFunctions.Pow.Real
import Mathlib.Analysis.SpecialFunctions.Trigonometric.Arctan
import Mathlib.Analysis.SpecialFunctions.Trigonometric.Inverse
import Mathlib.Analysis.SpecialFunctions.Arsinh
import Mathlib.Analysis.SpecialFunctions.Trigonometric.DerivHyp
import Mathlib.MeasureTheory.Integral.IntervalIntegral.Basic
import Mathlib.Algebra.Order.Round
import Mathlib.NumberTheory.Harmonic.EulerMascheroni

/-!
  RvModel.RealInst — the exact-real carrier `R`.

  `R` wraps `ℝ` (a `RealLike ℝ` instance would compete with Mathlib's own instances on `ℝ`).
  Every primitive denotes the exact mathematical function.  There is no NaN / ±∞ in `ℝ`: the three
  constants `nan posInf negInf` are *junk* (0) on this carrier and no theorem on `R` may mention a
  definition that evaluates them on the path under consideration (use the carrier `X` for that).
-/

open Real

structure R where
  val : ℝ

namespace R

/-- regularised lower incomplete gamma P(a, x) -/
noncomputable def incGammaR (x a : ℝ) : ℝ := (∫ t in (0:ℝ)..x, t ^ (a - 1) * Real.exp (-t)) / Real.Gamma a
/-- regularised incomplete beta I_x(a, b) -/
noncomputable def incBetaR (x a b : ℝ) : ℝ :=
  (∫ t in (0:ℝ)..x, t ^ (a - 1) * (1 - t) ^ (b - 1)) / (Real.Gamma a * Real.Gamma b / Real.Gamma (a + b))
/-- error function -/
noncomputable def erfR (x : ℝ) : ℝ := 2 / Real.sqrt π * ∫ t in (0:ℝ)..x, Real.exp (-t ^ 2)
/-- digamma = (log Γ)' -/
noncomputable def digammaR (x : ℝ) : ℝ := deriv (fun t => Real.log (Real.Gamma t)) x
/-- modified Bessel function of the first kind (ascending series) -/
noncomputable def bessIR (v x : ℝ) : ℝ := ∑' k : ℕ, (x / 2) ^ (2 * (k : ℝ) + v) / ((k.factorial : ℝ) * Real.Gamma (k + v + 1))

end R

noncomputable instance : RealLike R where
  add a b := ⟨a.val + b.val⟩
  sub a b := ⟨a.val - b.val⟩
  mul a b := ⟨a.val * b.val⟩
  div a b := ⟨a.val / b.val⟩
  neg a := ⟨-a.val⟩
  ofScientific m s e := ⟨(OfScientific.ofScientific m s e : ℝ)⟩
  ofNatR n := ⟨(n : ℝ)⟩
  ofIntR n := ⟨(n : ℝ)⟩
  toNat a := ⌊a.val⌋₊
  toInt a := if 0 ≤ a.val then ⌊a.val⌋ else ⌈a.val⌉
  ln a := ⟨Real.log a.val⟩
  exp a := ⟨Real.exp a.val⟩
  sqrt a := ⟨Real.sqrt a.val⟩
  abs a := ⟨|a.val|⟩
  ln1p a := ⟨Real.log (1 + a.val)⟩
  expm1 a := ⟨Real.exp a.val - 1⟩
  floor a := ⟨(⌊a.val⌋ : ℝ)⟩
  ceil a := ⟨(⌈a.val⌉ : ℝ)⟩
  round a := ⟨if 0 ≤ a.val then (⌊a.val + 1 / 2⌋ : ℝ) else (⌈a.val - 1 / 2⌉ : ℝ)⟩
  trunc a := ⟨if 0 ≤ a.val then (⌊a.val⌋ : ℝ) else (⌈a.val⌉ : ℝ)⟩
  sin a := ⟨Real.sin a.val⟩
  cos a := ⟨Real.cos a.val⟩
  tan a := ⟨Real.tan a.val⟩
  atan a := ⟨Real.arctan a.val⟩
  acos a := ⟨Real.arccos a.val⟩
  asin a := ⟨Real.arcsin a.val⟩
  sinh a := ⟨Real.sinh a.val⟩
  cosh a := ⟨Real.cosh a.val⟩
  tanh a := ⟨Real.tanh a.val⟩
  signum a := ⟨if 0 ≤ a.val then 1 else -1⟩
  log2 a := ⟨Real.logb 2 a.val⟩
  log10 a := ⟨Real.logb 10 a.val⟩
  exp2 a := ⟨(2 : ℝ) ^ a.val⟩
  powf a b := ⟨a.val ^ b.val⟩
  powi a n := ⟨a.val ^ n⟩
  max a b := ⟨max a.val b.val⟩
  min a b := ⟨min a.val b.val⟩
  remEuclid a b := ⟨a.val - |b.val| * (⌊a.val / |b.val|⌋ : ℝ)⟩
  lgamma a := ⟨Real.log (Real.Gamma a.val)⟩
  gamma a := ⟨Real.Gamma a.val⟩
  digamma a := ⟨R.digammaR a.val⟩
  lnBeta a b := ⟨Real.log (Real.Gamma a.val * Real.Gamma b.val / Real.Gamma (a.val + b.val))⟩
  incGamma x a := ⟨R.incGammaR x.val a.val⟩
  incBeta x a b _ := ⟨R.incBetaR x.val a.val b.val⟩
  erf a := ⟨R.erfR a.val⟩
  erfc a := ⟨1 - R.erfR a.val⟩
  erfInv a := ⟨Function.invFun R.erfR a.val⟩
  bessI0 a := ⟨R.bessIR 0 a.val⟩
  bessI1 a := ⟨R.bessIR 1 a.val⟩
  bessIv v a := ⟨R.bessIR v.val a.val⟩
  lt a b := decide (a.val < b.val)
  le a b := decide (a.val ≤ b.val)
  feq a b := decide (a.val = b.val)
  isFinite _ := true
  isNaN _ := false
  isInfinite _ := false
  isNormal a := decide (a.val ≠ 0)
  halfLn2Pi := ⟨Real.log (2 * π) / 2⟩
  halfLn2PiE := ⟨Real.log (2 * π * Real.exp 1) / 2⟩
  halfLnPi := ⟨Real.log π / 2⟩
  lnPi := ⟨Real.log π⟩
  ln2Pi := ⟨Real.log (2 * π)⟩
  ln2PiE := ⟨Real.log (2 * π * Real.exp 1)⟩
  eulerGamma := ⟨Real.eulerMascheroniConstant⟩
  lnLn2 := ⟨Real.log (Real.log 2)⟩
  sqrtPi := ⟨Real.sqrt π⟩
  ln2 := ⟨Real.log 2⟩
  ln10 := ⟨Real.log 10⟩
  pi := ⟨π⟩
  sqrt2 := ⟨Real.sqrt 2⟩
  e := ⟨Real.exp 1⟩
  frac1Pi := ⟨1 / π⟩
  frac1Sqrt2 := ⟨1 / Real.sqrt 2⟩
  fracPi2 := ⟨π / 2⟩
  negInf := ⟨0⟩
  posInf := ⟨0⟩
  nan := ⟨0⟩
  epsilon := ⟨(2 : ℝ) ^ (-52 : ℤ)⟩
  maxFinite := ⟨(2 - (2 : ℝ) ^ (-52 : ℤ)) * (2 : ℝ) ^ (1023 : ℤ)⟩
  minPositive := ⟨(2 : ℝ) ^ (-1022 : ℤ)⟩

namespace R
open RealLike

@[ext] theorem ext' {a b : R} (h : a.val = b.val) : a = b := by cases a; cases b; simp_all

@[simp] theorem add_val (a b : R) : (a + b).val = a.val + b.val := rfl
@[simp] theorem sub_val (a b : R) : (a - b).val = a.val - b.val := rfl
@[simp] theorem mul_val (a b : R) : (a * b).val = a.val * b.val := rfl
@[simp] theorem div_val (a b : R) : (a / b).val = a.val / b.val := rfl
@[simp] theorem neg_val (a : R) : (-a).val = -a.val := rfl
@[simp] theorem mk_val (x : ℝ) : (R.mk x).val = x := rfl
@[simp] theorem ln_val (a : R) : (RealLike.ln a).val = Real.log a.val := rfl
@[simp] theorem exp_val (a : R) : (RealLike.exp a).val = Real.exp a.val := rfl
@[simp] theorem sqrt_val (a : R) : (RealLike.sqrt a).val = Real.sqrt a.val := rfl
@[simp] theorem abs_val (a : R) : (RealLike.abs a).val = |a.val| := rfl
@[simp] theorem ln1p_val (a : R) : (RealLike.ln1p a).val = Real.log (1 + a.val) := rfl
@[simp] theorem expm1_val (a : R) : (RealLike.expm1 a).val = Real.exp a.val - 1 := rfl
@[simp] theorem sin_val (a : R) : (RealLike.sin a).val = Real.sin a.val := rfl
@[simp] theorem cos_val (a : R) : (RealLike.cos a).val = Real.cos a.val := rfl
@[simp] theorem tan_val (a : R) : (RealLike.tan a).val = Real.tan a.val := rfl
@[simp] theorem atan_val (a : R) : (RealLike.atan a).val = Real.arctan a.val := rfl
@[simp] theorem powf_val (a b : R) : (RealLike.powf a b).val = a.val ^ b.val := rfl
@[simp] theorem powi_val (a : R) (n : Int) : (RealLike.powi a n).val = a.val ^ n := rfl
@[simp] theorem max_val (a b : R) : (RealLike.max a b).val = max a.val b.val := rfl
@[simp] theorem min_val (a b : R) : (RealLike.min a b).val = min a.val b.val := rfl
@[simp] theorem lgamma_val (a : R) : (RealLike.lgamma a).val = Real.log (Real.Gamma a.val) := rfl
@[simp] theorem gamma_val (a : R) : (RealLike.gamma a).val = Real.Gamma a.val := rfl
@[simp] theorem digamma_val (a : R) : (RealLike.digamma a).val = R.digammaR a.val := rfl
@[simp] theorem lnBeta_val (a b : R) :
    (RealLike.lnBeta a b).val = Real.log (Real.Gamma a.val * Real.Gamma b.val / Real.Gamma (a.val + b.val)) := rfl
@[simp] theorem incGamma_val (x a : R) : (RealLike.incGamma x a).val = R.incGammaR x.val a.val := rfl
@[simp] theorem incBeta_val (x a b c : R) : (RealLike.incBeta x a b c).val = R.incBetaR x.val a.val b.val := rfl
@[simp] theorem erf_val (a : R) : (RealLike.erf a).val = R.erfR a.val := rfl
@[simp] theorem erfc_val (a : R) : (RealLike.erfc a).val = 1 - R.erfR a.val := rfl
@[simp] theorem erfInv_val (a : R) : (RealLike.erfInv a).val = Function.invFun R.erfR a.val := rfl
@[simp] theorem bessI0_val (a : R) : (RealLike.bessI0 a).val = R.bessIR 0 a.val := rfl
@[simp] theorem bessI1_val (a : R) : (RealLike.bessI1 a).val = R.bessIR 1 a.val := rfl
@[simp] theorem sci_val (m : Nat) (s : Bool) (e : Nat) :
    (OfScientific.ofScientific m s e : R).val = (OfScientific.ofScientific m s e : ℝ) := rfl
@[simp] theorem ofNatR_val (n : Nat) : (RealLike.ofNatR n : R).val = (n : ℝ) := rfl
@[simp] theorem ofIntR_val (n : Int) : (RealLike.ofIntR n : R).val = (n : ℝ) := rfl
@[simp] theorem lt_iff (a b : R) : RealLike.lt a b = true ↔ a.val < b.val := by
  show decide (a.val < b.val) = true ↔ _; simp
@[simp] theorem le_iff (a b : R) : RealLike.le a b = true ↔ a.val ≤ b.val := by
  show decide (a.val ≤ b.val) = true ↔ _; simp
@[simp] theorem feq_iff (a b : R) : RealLike.feq a b = true ↔ a.val = b.val := by
  show decide (a.val = b.val) = true ↔ _; simp
@[simp] theorem lt_false_iff (a b : R) : RealLike.lt a b = false ↔ ¬ a.val < b.val := by
  show decide (a.val < b.val) = false ↔ _; simp
@[simp] theorem le_false_iff (a b : R) : RealLike.le a b = false ↔ ¬ a.val ≤ b.val := by
  show decide (a.val ≤ b.val) = false ↔ _; simp
@[simp] theorem isFinite_eq (a : R) : RealLike.isFinite a = true := rfl
@[simp] theorem isNaN_eq (a : R) : RealLike.isNaN a = false := rfl
@[simp] theorem isInfinite_eq (a : R) : RealLike.isInfinite a = false := rfl
@[simp] theorem halfLn2Pi_val : (RealLike.halfLn2Pi : R).val = Real.log (2 * π) / 2 := rfl
@[simp] theorem halfLn2PiE_val : (RealLike.halfLn2PiE : R).val = Real.log (2 * π * Real.exp 1) / 2 := rfl
@[simp] theorem halfLnPi_val : (RealLike.halfLnPi : R).val = Real.log π / 2 := rfl
@[simp] theorem lnPi_val : (RealLike.lnPi : R).val = Real.log π := rfl
@[simp] theorem ln2Pi_val : (RealLike.ln2Pi : R).val = Real.log (2 * π) := rfl
@[simp] theorem ln2PiE_val : (RealLike.ln2PiE : R).val = Real.log (2 * π * Real.exp 1) := rfl
@[simp] theorem eulerGamma_val : (RealLike.eulerGamma : R).val = Real.eulerMascheroniConstant := rfl
@[simp] theorem lnLn2_val : (RealLike.lnLn2 : R).val = Real.log (Real.log 2) := rfl
@[simp] theorem sqrtPi_val : (RealLike.sqrtPi : R).val = Real.sqrt π := rfl
@[simp] theorem ln2_val : (RealLike.ln2 : R).val = Real.log 2 := rfl
@[simp] theorem ln10_val : (RealLike.ln10 : R).val = Real.log 10 := rfl
@[simp] theorem pi_val : (RealLike.pi : R).val = π := rfl
@[simp] theorem sqrt2_val : (RealLike.sqrt2 : R).val = Real.sqrt 2 := rfl
@[simp] theorem e_val : (RealLike.e : R).val = Real.exp 1 := rfl
@[simp] theorem frac1Pi_val : (RealLike.frac1Pi : R).val = 1 / π := rfl
@[simp] theorem frac1Sqrt2_val : (RealLike.frac1Sqrt2 : R).val = 1 / Real.sqrt 2 := rfl
@[simp] theorem fracPi2_val : (RealLike.fracPi2 : R).val = π / 2 := rfl

/-- the list sum helper over `R` is the real sum -/
theorem sumL_val (xs : List R) : (sumL xs).val = (xs.map R.val).sum := by
  have : ∀ (acc : R) (l : List R), (l.foldl (· + ·) acc).val = acc.val + (l.map R.val).sum := by
    intro acc l
    induction l generalizing acc with
    | nil => simp
    | cons x xs ih => simp [List.foldl, ih, add_assoc]
  simp [sumL, this]

end R
