//! C04: implementation-side ops for the samplers (`Sampleable::draw` / `sample`) of `rv::dist`.
//! Every op calls the REAL `draw` / `sample` with either a scripted generator (`Script`, replays the given 64-bit words,
//! then repeats the last one for ever) or `Xoshiro256Plus::seed_from_u64(seed)`.
//!
//! line format (same lines are understood by the Lean driver, lean/RvModel/Hand/DispatchC04.lean):
//!   draw.<Dist>   <kind> <params…> L<m> word…        -> <value> <supports T|F> <words consumed>   | PANIC | HANG
//!   sample.<Dist> <kind> <params…> <n> L<m> word…    -> L<n> value… <words consumed>              | PANIC | HANG
//!   fma           -      a b c                       -> a.mul_add(b, c)      (validates the driver's `fmaF`)
//!   normal01      -      L<m> word…                  -> <v> <words consumed>      (v = Gaussian::standard().draw = rand_distr Normal(0,1))
//!   drawchk.<Dist> -     <params…> <seed> <n>        -> <#non-finite> <#unsupported> <#panics> <det T|F> <len T|F> <seq T|F>
//!        det = two runs with the same seed give bit-identical draws; len = sample(n).len() == n (fresh generator, same seed);
//!        seq = sample(n) is bit-identical to the n successive draws with the same seed (informative, NOT required by C04)
//!   seedsample.<Dist> -  <params…> <seed> <n>        -> L<n> value…   (`sample(n)` with `Xoshiro256Plus::seed_from_u64(seed)`; for the
//!        statistical law test of props/cases_c04.py: Beta Cauchy ChiSquared Exponential Gamma Gaussian Gev InvChiSquared InvGamma
//!        Kumaraswamy Laplace LogNormal Pareto ScaledInvChiSquared Uniform UnitPowerLaw (f64), Poisson Binomial NegBinomial Geometric
//!        BetaBinomial (u32))
//!
//!   cmseq.<Model> -      <prior params…> <data list> <seed> <n>  -> <seq T|F> <len T|F> L<n> value…
//!        ConjugateModel (src/model.rs) with the data observed: `seq` = `sample(n)` from `seed_from_u64(seed)` is bit-identical to n
//!        successive `draw`s from the same generator state (true of the code: both run `posterior().draw; fx.draw` per element);
//!        values = sample(n).  Models: BetaBernoulli a b L<k> T|F… | GammaPoisson shape rate L<k> u32… | NormalGammaGaussian m r s v L<k> f64…
//!   cmpair.BetaBernoulli - a b L<data> <seed> <reps>  -> <#agree> <#true>   over `reps` calls of sample(2) (one generator, seeded):
//!        #agree = calls with x0 == x1, #true = number of `true` among the 2·reps values (joint-law test of props/cases_c04.py)
//!   cmcount.BetaBernoulli - a b L<data> <seed> <n> <reps>  -> L<reps> count…  (#true in each of `reps` calls of sample(n))
//!   seeddraw.<Prior> -   <params…> <seed>  -> <mu> <sigma>  (NormalGamma | NormalInvGamma | NormalInvChiSquared: the drawn Gaussian)
//!   seeddraw.NormalInvWishart - L<d> mu0 k df L<d*d> scale <seed>  -> L<d> mu L<d*d> cov   (the drawn MvGaussian, row-major)
//!   draw.MixtureGaussian f64 L<k> w… L<k> mu… L<k> sigma… L<m> word…  -> <value> <supports> <#words>   (impl only: component = ziggurat)
//!   drawhist.UnitPowerLaw f64 alpha1 alpha2 L2 w0 w1  -> <draw under alpha1 (word w0)> <draw after set_alpha(alpha2) (word w1)> <invcdf(0.5) after>
//!
//! params:  Bernoulli p | Laplace mu b | Gev loc scale shape | Kumaraswamy a b | UnitPowerLaw alpha | Geometric p |
//!          DiscreteUniform a b (ints of the kind) | Uniform a b | KsTwoAsymptotic (none) | Categorical L<k> ln_w… |
//!          MixtureLaplace L<k> w… L<k> mu… L<k> b… | InvGaussian mu lambda v kz | VonMises mu k | Empirical L<k> x… |
//!          Exponential rate
//!   `draw.InvGaussian … v kz`: v / kz are the value / word count of the internal `Normal(0,1)` draw (ask `normal01` first);
//!   the harness checks them against the real draw and answers `BADV` when they differ.
#![allow(unused)]
use crate::wire::*;
use rand::Rng;
use rand::SeedableRng;
use rand_xoshiro::Xoshiro256Plus;
use rv::dist::*;
use rv::traits::*;
use std::panic::{catch_unwind, AssertUnwindSafe};

/// integer token of any 64-bit kind (u64 values above i64::MAX included)
fn big(a: &mut Args) -> i128 {
    a.tag().parse::<i128>().expect("wire: int")
}
fn out3<V: Tok>(v: &V, s: bool, c: usize) -> String {
    format!("{} {} {}", tok(v), tok(&s), c)
}
fn outl<V: Tok>(v: &Vec<V>, c: usize) -> String {
    format!("{} {}", tok(v), c)
}

/// one scripted draw of a distribution over a scalar kind
fn draw1<X: Tok, D: Sampleable<X> + Support<X>>(d: &D, a: &mut Args) -> String {
    let mut rng = Script::new(a.words());
    let x: X = d.draw(&mut rng);
    let s = d.supports(&x);
    out3(&x, s, rng.consumed())
}
fn sample1<X: Tok, D: Sampleable<X>>(d: &D, a: &mut Args) -> String {
    let n = a.n() as usize;
    let mut rng = Script::new(a.words());
    let xs: Vec<X> = d.sample(n, &mut rng);
    outl(&xs, rng.consumed())
}

macro_rules! by_real_kind {
    ($kind:expr, $d:expr, $a:expr, $f:ident) => {
        match $kind {
            "f32" => $f::<f32, _>(&$d, $a),
            _ => $f::<f64, _>(&$d, $a),
        }
    };
}
macro_rules! by_uint_kind {
    ($kind:expr, $d:expr, $a:expr, $f:ident) => {
        match $kind {
            "u8" => $f::<u8, _>(&$d, $a),
            "u16" => $f::<u16, _>(&$d, $a),
            "u32" => $f::<u32, _>(&$d, $a),
            "usize" => $f::<usize, _>(&$d, $a),
            _ => $f::<u64, _>(&$d, $a),
        }
    };
}
macro_rules! by_bool_kind {
    ($kind:expr, $d:expr, $a:expr, $f:ident) => {
        match $kind {
            "u8" => $f::<u8, _>(&$d, $a),
            "u32" => $f::<u32, _>(&$d, $a),
            "i64" => $f::<i64, _>(&$d, $a),
            _ => $f::<bool, _>(&$d, $a),
        }
    };
}
macro_rules! du_kind {
    ($t:ty, $a:expr, $f:ident) => {{
        let lo = big($a) as $t;
        let hi = big($a) as $t;
        let d = DiscreteUniform::<$t>::new_unchecked(lo, hi);
        $f::<$t, _>(&d, $a)
    }};
}

// ---------------------------------------------------------------------------------------------------------------------
// seeded checks

struct Chk {
    nonfinite: usize,
    unsupported: usize,
    panics: usize,
    det: bool,
    len: bool,
    seq: bool,
}
impl Chk {
    fn s(&self) -> String {
        format!(
            "{} {} {} {} {} {}",
            self.nonfinite,
            self.unsupported,
            self.panics,
            tok(&self.det),
            tok(&self.len),
            tok(&self.seq)
        )
    }
}

fn chk<X>(
    seed: u64,
    n: usize,
    draw: &dyn Fn(&mut Xoshiro256Plus) -> X,
    sample: &dyn Fn(usize, &mut Xoshiro256Plus) -> Vec<X>,
    sup: &dyn Fn(&X) -> bool,
    fin: &dyn Fn(&X) -> bool,
    bits: &dyn Fn(&X) -> Vec<u64>,
) -> String {
    let mut c = Chk { nonfinite: 0, unsupported: 0, panics: 0, det: true, len: true, seq: true };
    let run = |count: bool, c: &mut Chk| -> Vec<Option<Vec<u64>>> {
        let mut rng = Xoshiro256Plus::seed_from_u64(seed);
        let mut out = Vec::with_capacity(n);
        for _ in 0..n {
            match catch_unwind(AssertUnwindSafe(|| draw(&mut rng))) {
                Ok(x) => {
                    if count {
                        if !fin(&x) {
                            c.nonfinite += 1;
                        }
                        match catch_unwind(AssertUnwindSafe(|| sup(&x))) {
                            Ok(true) => {}
                            _ => c.unsupported += 1,
                        }
                    }
                    out.push(Some(bits(&x)));
                }
                Err(_) => {
                    if count {
                        c.panics += 1;
                    }
                    out.push(None);
                }
            }
        }
        out
    };
    let r1 = run(true, &mut c);
    let r2 = run(false, &mut c);
    c.det = r1 == r2;
    let mut rng = Xoshiro256Plus::seed_from_u64(seed);
    match catch_unwind(AssertUnwindSafe(|| sample(n, &mut rng))) {
        Ok(xs) => {
            c.len = xs.len() == n;
            let sb: Vec<Option<Vec<u64>>> = xs.iter().map(|x| Some(bits(x))).collect();
            c.seq = sb == r1;
        }
        Err(_) => {
            c.len = false;
            c.seq = false;
        }
    }
    c.s()
}

fn fb(x: &f64) -> Vec<u64> {
    vec![x.to_bits()]
}
fn gauss_bits(g: &Gaussian) -> Vec<u64> {
    vec![g.mu().to_bits(), g.sigma().to_bits()]
}
fn gauss_fin(g: &Gaussian) -> bool {
    g.mu().is_finite() && g.sigma().is_finite()
}
/// validity of a drawn likelihood object = what the checked constructor accepts
fn gauss_valid(g: &Gaussian) -> bool {
    Gaussian::new(g.mu(), g.sigma()).is_ok()
}

macro_rules! seed_real {
    ($d:expr, $a:expr) => {{
        let d = $d;
        let seed = $a.n();
        let n = $a.n() as usize;
        let mut rng = Xoshiro256Plus::seed_from_u64(seed);
        let xs: Vec<f64> = d.sample(n, &mut rng);
        tok(&xs)
    }};
}
macro_rules! seed_u32 {
    ($d:expr, $a:expr) => {{
        let d = $d;
        let seed = $a.n();
        let n = $a.n() as usize;
        let mut rng = Xoshiro256Plus::seed_from_u64(seed);
        let xs: Vec<u32> = d.sample(n, &mut rng);
        tok(&xs)
    }};
}
macro_rules! chk_real {
    ($d:expr, $a:expr) => {{
        let d = $d;
        let seed = $a.n();
        let n = $a.n() as usize;
        chk::<f64>(
            seed,
            n,
            &|r| d.draw(r),
            &|k, r| d.sample(k, r),
            &|x| d.supports(x),
            &|x| x.is_finite(),
            &fb,
        )
    }};
}
macro_rules! chk_int {
    ($t:ty, $d:expr, $a:expr) => {{
        let d = $d;
        let seed = $a.n();
        let n = $a.n() as usize;
        chk::<$t>(
            seed,
            n,
            &|r| d.draw(r),
            &|k, r| d.sample(k, r),
            &|x| d.supports(x),
            &|_| true,
            &|x| vec![*x as i64 as u64],
        )
    }};
}

/// `sample(n)` from a fresh seeded generator vs n successive `draw`s from a fresh generator with the same seed
fn cmseq<X: Clone, M: Sampleable<X>>(m: &M, seed: u64, n: usize, bits: &dyn Fn(&X) -> u64, show: &dyn Fn(&Vec<X>) -> String) -> String {
    let mut r1 = Xoshiro256Plus::seed_from_u64(seed);
    let xs: Vec<X> = m.sample(n, &mut r1);
    let mut r2 = Xoshiro256Plus::seed_from_u64(seed);
    let ys: Vec<X> = (0..n).map(|_| m.draw(&mut r2)).collect();
    let seq = xs.len() == ys.len() && xs.iter().zip(ys.iter()).all(|(x, y)| bits(x) == bits(y));
    format!("{} {} {}", tok(&seq), tok(&(xs.len() == n)), show(&xs))
}
fn beta_bernoulli(a: &mut Args) -> rv::ConjugateModel<bool, Bernoulli, Beta> {
    let pr = std::sync::Arc::new(Beta::new_unchecked(a.f(), a.f()));
    let mut m = rv::ConjugateModel::<bool, Bernoulli, Beta>::new(&Bernoulli::uniform(), pr);
    for x in a.list(|a| a.b()) {
        m.observe(&x);
    }
    m
}

pub fn dispatch(op: &str, kind: &str, a: &mut Args) -> Option<String> {
    Some(match op {
        // -------------------------------------------------------------------------------------------- ConjugateModel
        "cmseq.BetaBernoulli" => {
            let m = beta_bernoulli(a);
            let (seed, n) = (a.n(), a.n() as usize);
            cmseq::<bool, _>(&m, seed, n, &|x| *x as u64, &|v| tok(v))
        }
        "cmseq.GammaPoisson" => {
            let pr = std::sync::Arc::new(Gamma::new_unchecked(a.f(), a.f()));
            let mut m = rv::ConjugateModel::<u32, Poisson, Gamma>::new(&Poisson::new_unchecked(1.0), pr);
            for x in a.list(|a| a.n() as u32) {
                m.observe(&x);
            }
            let (seed, n) = (a.n(), a.n() as usize);
            cmseq::<u32, _>(&m, seed, n, &|x| *x as u64, &|v| tok(v))
        }
        "cmseq.NormalGammaGaussian" => {
            let pr = std::sync::Arc::new(NormalGamma::new_unchecked(a.f(), a.f(), a.f(), a.f()));
            let mut m = rv::ConjugateModel::<f64, Gaussian, NormalGamma>::new(&Gaussian::standard(), pr);
            for x in a.list(|a| a.f()) {
                m.observe(&x);
            }
            let (seed, n) = (a.n(), a.n() as usize);
            cmseq::<f64, _>(&m, seed, n, &|x| x.to_bits(), &|v| tok(v))
        }
        "cmpair.BetaBernoulli" => {
            let m = beta_bernoulli(a);
            let (seed, reps) = (a.n(), a.n() as usize);
            let mut rng = Xoshiro256Plus::seed_from_u64(seed);
            let (mut agree, mut trues) = (0usize, 0usize);
            for _ in 0..reps {
                let xs: Vec<bool> = m.sample(2, &mut rng);
                if xs.len() == 2 && xs[0] == xs[1] {
                    agree += 1;
                }
                trues += xs.iter().filter(|&&x| x).count();
            }
            format!("{} {}", agree, trues)
        }
        "cmcount.BetaBernoulli" => {
            let m = beta_bernoulli(a);
            let (seed, n, reps) = (a.n(), a.n() as usize, a.n() as usize);
            let mut rng = Xoshiro256Plus::seed_from_u64(seed);
            let counts: Vec<u64> = (0..reps)
                .map(|_| {
                    let xs: Vec<bool> = m.sample(n, &mut rng);
                    xs.iter().filter(|&&x| x).count() as u64
                })
                .collect();
            tok(&counts)
        }
        // -------------------------------------------------------------------------------------------- seeded prior draws
        "seeddraw.NormalGamma" => {
            let d = NormalGamma::new_unchecked(a.f(), a.f(), a.f(), a.f());
            let mut rng = Xoshiro256Plus::seed_from_u64(a.n());
            let g: Gaussian = d.draw(&mut rng);
            format!("{} {}", tok(&g.mu()), tok(&g.sigma()))
        }
        "seeddraw.NormalInvGamma" => {
            let d = NormalInvGamma::new_unchecked(a.f(), a.f(), a.f(), a.f());
            let mut rng = Xoshiro256Plus::seed_from_u64(a.n());
            let g: Gaussian = d.draw(&mut rng);
            format!("{} {}", tok(&g.mu()), tok(&g.sigma()))
        }
        "seeddraw.NormalInvChiSquared" => {
            let d = NormalInvChiSquared::new_unchecked(a.f(), a.f(), a.f(), a.f());
            let mut rng = Xoshiro256Plus::seed_from_u64(a.n());
            let g: Gaussian = d.draw(&mut rng);
            format!("{} {}", tok(&g.mu()), tok(&g.sigma()))
        }
        "seeddraw.NormalInvWishart" => {
            let mu = a.list(|a| a.f());
            let k0 = a.f();
            let df = a.n() as usize;
            let sc = a.list(|a| a.f());
            let k = mu.len();
            let d = NormalInvWishart::new_unchecked(
                nalgebra::DVector::from_vec(mu),
                k0,
                df,
                nalgebra::DMatrix::from_row_slice(k, k, &sc),
            );
            let mut rng = Xoshiro256Plus::seed_from_u64(a.n());
            let g: MvGaussian = d.draw(&mut rng);
            let m: Vec<f64> = g.mu().iter().cloned().collect();
            let mut c: Vec<f64> = Vec::new();
            for i in 0..k {
                for j in 0..k {
                    c.push(g.cov()[(i, j)]);
                }
            }
            format!("{} {}", tok(&m), tok(&c))
        }
        // -------------------------------------------------------------------------------------------- Mixture<Gaussian>, history
        "draw.MixtureGaussian" => {
            let ws = a.list(|a| a.f());
            let mus = a.list(|a| a.f());
            let sg = a.list(|a| a.f());
            let comps: Vec<Gaussian> =
                mus.iter().zip(sg.iter()).map(|(m, s)| Gaussian::new_unchecked(*m, *s)).collect();
            let d = Mixture::new_unchecked(ws, comps);
            draw1::<f64, _>(&d, a)
        }
        "drawhist.UnitPowerLaw" => {
            let mut d = UnitPowerLaw::new_unchecked(a.f());
            let alpha2 = a.f();
            let words = a.words();
            let w0 = words.get(0).cloned().unwrap_or(0);
            let w1 = words.get(1).cloned().unwrap_or(w0);
            let x0: f64 = d.draw(&mut Script::new(vec![w0]));
            d.set_alpha(alpha2).unwrap();
            let x1: f64 = d.draw(&mut Script::new(vec![w1]));
            let q: f64 = d.invcdf(0.5);
            format!("{} {} {}", tok(&x0), tok(&x1), tok(&q))
        }
        // -------------------------------------------------------------------------------------------- scripted draws
        "fma" => {
            let (x, y, z) = (a.f(), a.f(), a.f());
            tok(&x.mul_add(y, z))
        }
        "normal01" => {
            let mut rng = Script::new(a.words());
            let v: f64 = Gaussian::standard().draw(&mut rng);
            format!("{} {}", tok(&v), rng.consumed())
        }
        "draw.Bernoulli" => {
            let d = Bernoulli::new_unchecked(a.f());
            by_bool_kind!(kind, d, a, draw1)
        }
        "sample.Bernoulli" => {
            let d = Bernoulli::new_unchecked(a.f());
            by_bool_kind!(kind, d, a, sample1)
        }
        "draw.Laplace" => {
            let d = Laplace::new_unchecked(a.f(), a.f());
            by_real_kind!(kind, d, a, draw1)
        }
        "sample.Laplace" => {
            let d = Laplace::new_unchecked(a.f(), a.f());
            by_real_kind!(kind, d, a, sample1)
        }
        "draw.Gev" => {
            let d = Gev::new_unchecked(a.f(), a.f(), a.f());
            by_real_kind!(kind, d, a, draw1)
        }
        "sample.Gev" => {
            let d = Gev::new_unchecked(a.f(), a.f(), a.f());
            by_real_kind!(kind, d, a, sample1)
        }
        "draw.Kumaraswamy" => {
            let d = Kumaraswamy::new_unchecked(a.f(), a.f());
            by_real_kind!(kind, d, a, draw1)
        }
        "sample.Kumaraswamy" => {
            let d = Kumaraswamy::new_unchecked(a.f(), a.f());
            by_real_kind!(kind, d, a, sample1)
        }
        "draw.UnitPowerLaw" => {
            let d = UnitPowerLaw::new_unchecked(a.f());
            by_real_kind!(kind, d, a, draw1)
        }
        "sample.UnitPowerLaw" => {
            let d = UnitPowerLaw::new_unchecked(a.f());
            by_real_kind!(kind, d, a, sample1)
        }
        "draw.Geometric" => {
            let d = Geometric::new_unchecked(a.f());
            by_uint_kind!(kind, d, a, draw1)
        }
        "sample.Geometric" => {
            let d = Geometric::new_unchecked(a.f());
            by_uint_kind!(kind, d, a, sample1)
        }
        "draw.DiscreteUniform" => match kind {
            "u8" => du_kind!(u8, a, draw1),
            "i8" => du_kind!(i8, a, draw1),
            "u16" => du_kind!(u16, a, draw1),
            "i16" => du_kind!(i16, a, draw1),
            "u32" => du_kind!(u32, a, draw1),
            "i32" => du_kind!(i32, a, draw1),
            "u64" => du_kind!(u64, a, draw1),
            _ => du_kind!(i64, a, draw1),
        },
        "sample.DiscreteUniform" => match kind {
            "u8" => du_kind!(u8, a, sample1),
            "i8" => du_kind!(i8, a, sample1),
            "u16" => du_kind!(u16, a, sample1),
            "i16" => du_kind!(i16, a, sample1),
            "u32" => du_kind!(u32, a, sample1),
            "i32" => du_kind!(i32, a, sample1),
            "u64" => du_kind!(u64, a, sample1),
            _ => du_kind!(i64, a, sample1),
        },
        "draw.Uniform" => {
            let d = Uniform::new_unchecked(a.f(), a.f());
            by_real_kind!(kind, d, a, draw1)
        }
        "sample.Uniform" => {
            let d = Uniform::new_unchecked(a.f(), a.f());
            by_real_kind!(kind, d, a, sample1)
        }
        "draw.Exponential" => {
            let d = Exponential::new_unchecked(a.f());
            by_real_kind!(kind, d, a, draw1)
        }
        "draw.KsTwoAsymptotic" => {
            let d = KsTwoAsymptotic::new();
            by_real_kind!(kind, d, a, draw1)
        }
        "draw.Categorical" => {
            let d = Categorical::new_unchecked(a.list(|a| a.f()));
            match kind {
                "u8" => draw1::<u8, _>(&d, a),
                _ => draw1::<usize, _>(&d, a),
            }
        }
        "sample.Categorical" => {
            let d = Categorical::new_unchecked(a.list(|a| a.f()));
            match kind {
                "u8" => sample1::<u8, _>(&d, a),
                _ => sample1::<usize, _>(&d, a),
            }
        }
        "draw.MixtureLaplace" | "sample.MixtureLaplace" => {
            let ws = a.list(|a| a.f());
            let mus = a.list(|a| a.f());
            let bs = a.list(|a| a.f());
            let comps: Vec<Laplace> =
                mus.iter().zip(bs.iter()).map(|(m, b)| Laplace::new_unchecked(*m, *b)).collect();
            let d = Mixture::new_unchecked(ws, comps);
            if op == "draw.MixtureLaplace" {
                draw1::<f64, _>(&d, a)
            } else {
                sample1::<f64, _>(&d, a)
            }
        }
        "draw.InvGaussian" => {
            let d = InvGaussian::new_unchecked(a.f(), a.f());
            let v = a.f();
            let kz = a.n() as usize;
            let words = a.words();
            let mut probe = Script::new(words.clone());
            let v_real: f64 = Gaussian::standard().draw(&mut probe);
            if v_real.to_bits() != v.to_bits() || probe.consumed() != kz {
                return Some("BADV".to_string());
            }
            let mut rng = Script::new(words);
            let x: f64 = d.draw(&mut rng);
            out3(&x, d.supports(&x), rng.consumed())
        }
        "draw.VonMises" => {
            let d = VonMises::new_unchecked(a.f(), a.f());
            by_real_kind!(kind, d, a, draw1)
        }
        "sample.VonMises" => {
            let d = VonMises::new_unchecked(a.f(), a.f());
            by_real_kind!(kind, d, a, sample1)
        }
        "draw.Empirical" => {
            let d = Empirical::new(a.list(|a| a.f()));
            let mut rng = Script::new(a.words());
            let x: f64 = d.draw(&mut rng);
            // Empirical has no `Support` impl: "supported" = the value is one of the data points
            out3(&x, true, rng.consumed())
        }
        // -------------------------------------------------------------------------------------------- seeded samples
        "seedsample.Beta" => seed_real!(Beta::new_unchecked(a.f(), a.f()), a),
        "seedsample.Cauchy" => seed_real!(Cauchy::new_unchecked(a.f(), a.f()), a),
        "seedsample.ChiSquared" => seed_real!(ChiSquared::new_unchecked(a.f()), a),
        "seedsample.Exponential" => seed_real!(Exponential::new_unchecked(a.f()), a),
        "seedsample.Gamma" => seed_real!(Gamma::new_unchecked(a.f(), a.f()), a),
        "seedsample.Gaussian" => seed_real!(Gaussian::new_unchecked(a.f(), a.f()), a),
        "seedsample.Gev" => seed_real!(Gev::new_unchecked(a.f(), a.f(), a.f()), a),
        "seedsample.InvChiSquared" => seed_real!(InvChiSquared::new_unchecked(a.f()), a),
        "seedsample.InvGamma" => seed_real!(InvGamma::new_unchecked(a.f(), a.f()), a),
        "seedsample.Kumaraswamy" => seed_real!(Kumaraswamy::new_unchecked(a.f(), a.f()), a),
        "seedsample.Laplace" => seed_real!(Laplace::new_unchecked(a.f(), a.f()), a),
        "seedsample.LogNormal" => seed_real!(LogNormal::new_unchecked(a.f(), a.f()), a),
        "seedsample.Pareto" => seed_real!(Pareto::new_unchecked(a.f(), a.f()), a),
        "seedsample.ScaledInvChiSquared" => seed_real!(ScaledInvChiSquared::new_unchecked(a.f(), a.f()), a),
        "seedsample.Uniform" => seed_real!(Uniform::new_unchecked(a.f(), a.f()), a),
        "seedsample.UnitPowerLaw" => seed_real!(UnitPowerLaw::new_unchecked(a.f()), a),
        "seedsample.Poisson" => seed_u32!(Poisson::new_unchecked(a.f()), a),
        "seedsample.Binomial" => seed_u32!(Binomial::new_unchecked(a.n(), a.f()), a),
        "seedsample.NegBinomial" => seed_u32!(NegBinomial::new_unchecked(a.f(), a.f()), a),
        "seedsample.Geometric" => seed_u32!(Geometric::new_unchecked(a.f()), a),
        "seedsample.BetaBinomial" => seed_u32!(BetaBinomial::new_unchecked(a.n() as u32, a.f(), a.f()), a),
        // -------------------------------------------------------------------------------------------- seeded checks
        "drawchk.Bernoulli" => {
            let d = Bernoulli::new_unchecked(a.f());
            let seed = a.n();
            let n = a.n() as usize;
            chk::<bool>(seed, n, &|r| d.draw(r), &|k, r| d.sample(k, r), &|x| d.supports(x), &|_| true, &|x| vec![*x as u64])
        }
        "drawchk.Beta" => chk_real!(Beta::new_unchecked(a.f(), a.f()), a),
        "drawchk.BetaBinomial" => chk_int!(u32, BetaBinomial::new_unchecked(a.n() as u32, a.f(), a.f()), a),
        "drawchk.Binomial" => chk_int!(u32, Binomial::new_unchecked(a.n(), a.f()), a),
        "drawchk.Categorical" => chk_int!(usize, Categorical::new(&a.list(|a| a.f())).unwrap(), a),
        "drawchk.Cauchy" => chk_real!(Cauchy::new_unchecked(a.f(), a.f()), a),
        "drawchk.ChiSquared" => chk_real!(ChiSquared::new_unchecked(a.f()), a),
        "drawchk.Crp" => {
            let d = Crp::new_unchecked(a.f(), a.n() as usize);
            let seed = a.n();
            let n = a.n() as usize;
            chk::<rv::data::Partition>(
                seed,
                n,
                &|r| d.draw(r),
                &|k, r| d.sample(k, r),
                // a valid partition: labels < k, counts are the label counts and sum to n
                &|p| {
                    let z = p.z();
                    let c = p.counts();
                    let mut cnt = vec![0usize; c.len()];
                    for &zi in z.iter() {
                        if zi >= c.len() {
                            return false;
                        }
                        cnt[zi] += 1;
                    }
                    &cnt == c && c.iter().all(|&x| x > 0)
                },
                &|_| true,
                &|p| p.z().iter().map(|&z| z as u64).chain(p.counts().iter().map(|&z| z as u64)).collect(),
            )
        }
        "drawchk.Dirichlet" => {
            let d = Dirichlet::new_unchecked(a.list(|a| a.f()));
            let seed = a.n();
            let n = a.n() as usize;
            chk::<Vec<f64>>(seed, n, &|r| d.draw(r), &|k, r| d.sample(k, r), &|x| d.supports(x),
                &|x| x.iter().all(|v| v.is_finite()), &|x| x.iter().map(|v| v.to_bits()).collect())
        }
        "drawchk.SymmetricDirichlet" => {
            let d = SymmetricDirichlet::new_unchecked(a.f(), a.n() as usize);
            let seed = a.n();
            let n = a.n() as usize;
            chk::<Vec<f64>>(seed, n, &|r| d.draw(r), &|k, r| d.sample(k, r), &|x| d.supports(x),
                &|x| x.iter().all(|v| v.is_finite()), &|x| x.iter().map(|v| v.to_bits()).collect())
        }
        "drawchk.DiscreteUniform" => chk_int!(i32, DiscreteUniform::<i32>::new_unchecked(a.i() as i32, a.i() as i32), a),
        "drawchk.Empirical" => {
            let xs = a.list(|a| a.f());
            let d = Empirical::new(xs.clone());
            let seed = a.n();
            let n = a.n() as usize;
            chk::<f64>(seed, n, &|r| d.draw(r), &|k, r| d.sample(k, r),
                &|x| xs.iter().any(|y| y.to_bits() == x.to_bits()), &|x| x.is_finite(), &fb)
        }
        "drawchk.Exponential" => chk_real!(Exponential::new_unchecked(a.f()), a),
        "drawchk.Gamma" => chk_real!(Gamma::new_unchecked(a.f(), a.f()), a),
        "drawchk.Gaussian" => chk_real!(Gaussian::new_unchecked(a.f(), a.f()), a),
        "drawchk.Geometric" => chk_int!(u32, Geometric::new_unchecked(a.f()), a),
        "drawchk.Gev" => chk_real!(Gev::new_unchecked(a.f(), a.f(), a.f()), a),
        "drawchk.InvChiSquared" => chk_real!(InvChiSquared::new_unchecked(a.f()), a),
        "drawchk.InvGamma" => chk_real!(InvGamma::new_unchecked(a.f(), a.f()), a),
        "drawchk.InvGaussian" => chk_real!(InvGaussian::new_unchecked(a.f(), a.f()), a),
        "drawchk.KsTwoAsymptotic" => chk_real!(KsTwoAsymptotic::new(), a),
        "drawchk.Kumaraswamy" => chk_real!(Kumaraswamy::new_unchecked(a.f(), a.f()), a),
        "drawchk.Laplace" => chk_real!(Laplace::new_unchecked(a.f(), a.f()), a),
        "drawchk.LogNormal" => chk_real!(LogNormal::new_unchecked(a.f(), a.f()), a),
        "drawchk.MixtureGaussian" => {
            let ws = a.list(|a| a.f());
            let mus = a.list(|a| a.f());
            let sg = a.list(|a| a.f());
            let comps: Vec<Gaussian> =
                mus.iter().zip(sg.iter()).map(|(m, s)| Gaussian::new_unchecked(*m, *s)).collect();
            chk_real!(Mixture::new_unchecked(ws, comps), a)
        }
        "drawchk.MvGaussian" => {
            // params: dimension k, then mu (L<k>), then cov row-major (L<k*k>)
            let mu = a.list(|a| a.f());
            let cov = a.list(|a| a.f());
            let k = mu.len();
            let d = MvGaussian::new_unchecked(
                nalgebra::DVector::from_vec(mu),
                nalgebra::DMatrix::from_row_slice(k, k, &cov),
            );
            let seed = a.n();
            let n = a.n() as usize;
            chk::<nalgebra::DVector<f64>>(seed, n, &|r| d.draw(r), &|k, r| d.sample(k, r), &|x| d.supports(x),
                &|x| x.iter().all(|v| v.is_finite()), &|x| x.iter().map(|v| v.to_bits()).collect())
        }
        "drawchk.NegBinomial" => chk_int!(u32, NegBinomial::new_unchecked(a.f(), a.f()), a),
        "drawchk.NormalGamma" => {
            let d = NormalGamma::new_unchecked(a.f(), a.f(), a.f(), a.f());
            let seed = a.n();
            let n = a.n() as usize;
            chk::<Gaussian>(seed, n, &|r| d.draw(r), &|k, r| d.sample(k, r), &gauss_valid, &gauss_fin, &gauss_bits)
        }
        "drawchk.NormalInvChiSquared" => {
            let d = NormalInvChiSquared::new_unchecked(a.f(), a.f(), a.f(), a.f());
            let seed = a.n();
            let n = a.n() as usize;
            chk::<Gaussian>(seed, n, &|r| d.draw(r), &|k, r| d.sample(k, r), &gauss_valid, &gauss_fin, &gauss_bits)
        }
        "drawchk.NormalInvGamma" => {
            let d = NormalInvGamma::new_unchecked(a.f(), a.f(), a.f(), a.f());
            let seed = a.n();
            let n = a.n() as usize;
            chk::<Gaussian>(seed, n, &|r| d.draw(r), &|k, r| d.sample(k, r), &gauss_valid, &gauss_fin, &gauss_bits)
        }
        "drawchk.NormalInvWishart" => {
            // params: mu (L<k>), k0, df, scale row-major (L<k*k>)
            let mu = a.list(|a| a.f());
            let k0 = a.f();
            let df = a.n() as usize;
            let sc = a.list(|a| a.f());
            let k = mu.len();
            let d = NormalInvWishart::new_unchecked(
                nalgebra::DVector::from_vec(mu),
                k0,
                df,
                nalgebra::DMatrix::from_row_slice(k, k, &sc),
            );
            let seed = a.n();
            let n = a.n() as usize;
            chk::<MvGaussian>(seed, n, &|r| d.draw(r), &|k, r| d.sample(k, r), &|x| d.supports(x),
                &|x| x.mu().iter().all(|v| v.is_finite()) && x.cov().iter().all(|v| v.is_finite()),
                &|x| x.mu().iter().chain(x.cov().iter()).map(|v| v.to_bits()).collect())
        }
        "drawchk.InvWishart" => {
            // params: df, inverse scale row-major (L<k*k>)
            let df = a.n() as usize;
            let sc = a.list(|a| a.f());
            let k = (sc.len() as f64).sqrt() as usize;
            let d = InvWishart::new_unchecked(nalgebra::DMatrix::from_row_slice(k, k, &sc), df);
            let seed = a.n();
            let n = a.n() as usize;
            chk::<nalgebra::DMatrix<f64>>(seed, n, &|r| d.draw(r), &|k, r| d.sample(k, r), &|x| d.supports(x),
                &|x| x.iter().all(|v| v.is_finite()), &|x| x.iter().map(|v| v.to_bits()).collect())
        }
        "drawchk.Pareto" => chk_real!(Pareto::new_unchecked(a.f(), a.f()), a),
        "drawchk.Poisson" => chk_int!(u32, Poisson::new_unchecked(a.f()), a),
        "drawchk.ScaledInvChiSquared" => chk_real!(ScaledInvChiSquared::new_unchecked(a.f(), a.f()), a),
        "drawchk.Skellam" => chk_int!(i32, Skellam::new_unchecked(a.f(), a.f()), a),
        "drawchk.StudentsT" => chk_real!(StudentsT::new_unchecked(a.f()), a),
        "drawchk.Uniform" => chk_real!(Uniform::new_unchecked(a.f(), a.f()), a),
        "drawchk.UnitPowerLaw" => chk_real!(UnitPowerLaw::new_unchecked(a.f()), a),
        "drawchk.VonMises" => chk_real!(VonMises::new_unchecked(a.f(), a.f()), a),
        _ => return None,
    })
}
