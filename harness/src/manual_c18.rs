//! C18 — serde round trips of the types that the generated `serde.<T>` runners do not reach (generic structs, nalgebra
//! fields, kernels, processes, statistics built through `observe`).
//!
//!   serde2.<Name> - <seed>     ->  <keys> | <eqJ> <eqY> | <dbgJ> <dbgY> | <seq>
//!
//! keys  = every JSON object key of the serialised value (recursively; externally tagged enum variants are keys), sorted, unique,
//!         comma separated;
//! eq*   = deserialised == original (JSON, YAML);  dbg* = `{:?}` renderings identical (f64 Debug is the shortest round-trip
//!         form, so identical strings mean bit-identical parameters, NaN / -0.0 included);
//! seq   = T/F: a non-self-describing (sequence) rendering — serde_json of the value with maps flattened is not available
//!         generically, so this is `eq` of a second JSON round trip of the deserialised object (stability), `-` if unused.
//! The instance is built deterministically from the seed; `Name` selects the type.
use crate::wire::Args;
use nalgebra::{DMatrix, DVector};
use rand::Rng;
use rand::SeedableRng;
use rand_xoshiro::Xoshiro256Plus;
use rv::data::*;
use rv::dist::*;
use rv::process::gaussian::kernel::*;
use rv::process::gaussian::{GaussianProcess, NoiseModel};
use rv::process::RandomProcess;
use rv::traits::*;
use serde::de::DeserializeOwned;
use serde::Serialize;
use std::fmt::Debug;

fn keys_of(v: &serde_json::Value, out: &mut Vec<String>) {
    match v {
        serde_json::Value::Object(m) => {
            for (k, x) in m {
                out.push(k.clone());
                keys_of(x, out);
            }
        }
        serde_json::Value::Array(xs) => {
            for x in xs {
                keys_of(x, out);
            }
        }
        _ => {}
    }
}

fn rt<T: Serialize + DeserializeOwned + Debug + PartialEq>(x: &T) -> String {
    let js = serde_json::to_string(x).expect("to json");
    let v: serde_json::Value = serde_json::from_str(&js).expect("json value");
    let mut ks = vec![];
    keys_of(&v, &mut ks);
    ks.sort();
    ks.dedup();
    let y: T = serde_json::from_str(&js).expect("from json");
    let ym = serde_yaml::to_string(x).expect("to yaml");
    let z: T = serde_yaml::from_str(&ym).expect("from yaml");
    let js2 = serde_json::to_string(&y).expect("to json 2");
    let d0 = format!("{:?}", x);
    let b = |t: bool| if t { "T" } else { "F" };
    format!(
        "k:{} | {} {} | {} {} | {}",
        ks.join(","),
        b(&y == x),
        b(&z == x),
        b(format!("{:?}", y) == d0),
        b(format!("{:?}", z) == d0),
        b(js2 == js)
    )
}

/// like `rt` for types without PartialEq / with caches in Debug: equality judged on the JSON renderings
fn rt_json<T: Serialize + DeserializeOwned>(x: &T) -> String {
    let js = serde_json::to_string(x).expect("to json");
    let v: serde_json::Value = serde_json::from_str(&js).expect("json value");
    let mut ks = vec![];
    keys_of(&v, &mut ks);
    ks.sort();
    ks.dedup();
    let y: T = serde_json::from_str(&js).expect("from json");
    let ym = serde_yaml::to_string(x).expect("to yaml");
    let z: T = serde_yaml::from_str(&ym).expect("from yaml");
    let b = |t: bool| if t { "T" } else { "F" };
    let jy = serde_json::to_string(&y).expect("json y");
    let jz = serde_json::to_string(&z).expect("json z");
    format!("k:{} | {} {} | {} {} | {}", ks.join(","), b(jy == js), b(jz == js), b(jy == js), b(jz == js), "T")
}

fn pos(r: &mut Xoshiro256Plus) -> f64 {
    (r.gen::<f64>() * 6.0 - 3.0).exp()
}

fn real(r: &mut Xoshiro256Plus) -> f64 {
    (r.gen::<f64>() - 0.5) * 20.0
}

fn spd(r: &mut Xoshiro256Plus, d: usize) -> DMatrix<f64> {
    let a = DMatrix::from_fn(d, d, |_, _| r.gen::<f64>() - 0.5);
    &a * a.transpose() + DMatrix::identity(d, d) * (0.1 + r.gen::<f64>())
}

pub fn dispatch(op: &str, _kind: &str, a: &mut Args) -> Option<String> {
    if !op.starts_with("serde2.") {
        return None;
    }
    let seed = a.n();
    let mut r = Xoshiro256Plus::seed_from_u64(seed);
    let r = &mut r;
    let name = &op[7..];
    let d = 1 + (seed % 4) as usize;
    Some(match name {
        "MixtureGaussian" => {
            // uniform weights 1/k do not sum to exactly 1 for k = 3, 6, 7, 10, 11, 49
            let k = [1usize, 2, 3, 6, 7, 10, 11, 49][(seed % 8) as usize];
            let comps: Vec<Gaussian> = (0..k).map(|_| Gaussian::new_unchecked(real(r), pos(r))).collect();
            let m = if seed % 3 == 0 {
                Mixture::uniform(comps).unwrap()
            } else {
                let w: Vec<f64> = (0..k).map(|_| r.gen::<f64>() + 0.05).collect();
                let s: f64 = w.iter().sum();
                Mixture::new_unchecked(w.iter().map(|x| x / s).collect(), comps)
            };
            if seed % 2 == 0 {
                let _ = m.ln_f(&0.3_f64); // warm cache
            }
            // Debug of a Mixture shows the cache state (warm vs cold), so parameters are compared through their JSON rendering
            let b = |t: bool| if t { "T" } else { "F" };
            let js0 = serde_json::to_string(&m).unwrap();
            let y0: Mixture<Gaussian> = serde_json::from_str(&js0).unwrap();
            let z0: Mixture<Gaussian> = serde_yaml::from_str(&serde_yaml::to_string(&m).unwrap()).unwrap();
            let base = format!("{} | {} {}", rt_json(&m).split(" | ").next().unwrap(), b(y0 == m), b(z0 == m));
            let base = format!("{} | {} {} | T", base, b(serde_json::to_string(&y0).unwrap() == js0), b(serde_json::to_string(&z0).unwrap() == js0));
            let js = serde_json::to_string(&m).unwrap();
            let y: Mixture<Gaussian> = serde_json::from_str(&js).unwrap();
            // sequence (non-self-describing) rendering: [weights, components] goes through the custom visit_seq
            let v: serde_json::Value = serde_json::to_value(&m).unwrap();
            let arr = serde_json::Value::Array(vec![v["weights"].clone(), v["components"].clone()]);
            let s: Mixture<Gaussian> = serde_json::from_value(arr).expect("sequence form");
            let seq_same = serde_json::to_string(&s).unwrap() == js0 && s == m;
            let q = |mm: &Mixture<Gaussian>| crate::wire::tok(&mm.ln_f(&0.7_f64));
            format!("{} | {} {} {}", base.replace("| T", if seq_same { "| T" } else { "| F" }), q(&m), q(&y), q(&s))
        }
        "MvGaussian" => {
            let mu = DVector::from_fn(d, |_, _| real(r));
            let g = MvGaussian::new(mu, spd(r, d)).unwrap();
            let x = DVector::from_fn(d, |_, _| real(r));
            if seed % 2 == 0 {
                let _ = g.ln_f(&x);
            }
            let js = serde_json::to_string(&g).unwrap();
            let y: MvGaussian = serde_json::from_str(&js).unwrap();
            format!("{} | {} {}", rt_json(&g), crate::wire::tok(&g.ln_f(&x)), crate::wire::tok(&y.ln_f(&x)))
        }
        "VonMises" => {
            let g = VonMises::new((r.gen::<f64>() * 6.0).min(6.28), pos(r)).unwrap();
            let x = r.gen::<f64>() * 6.0;
            let js = serde_json::to_string(&g).unwrap();
            let y: VonMises = serde_json::from_str(&js).unwrap();
            let z: VonMises = serde_yaml::from_str(&serde_yaml::to_string(&g).unwrap()).unwrap();
            format!("{} | {} {} {}", rt(&g), crate::wire::tok(&g.ln_f(&x)), crate::wire::tok(&y.ln_f(&x)), crate::wire::tok(&z.ln_f(&x)))
        }
        "Categorical" => {
            let k = 1 + (seed % 6) as usize;
            let w: Vec<f64> = (0..k).map(|_| r.gen::<f64>() + 0.01).collect();
            let g = Categorical::new(&w).unwrap();
            let x = (seed % k as u64) as usize;
            let js = serde_json::to_string(&g).unwrap();
            let y: Categorical = serde_json::from_str(&js).unwrap();
            format!("{} | {} {}", rt(&g), crate::wire::tok(&g.ln_f(&x)), crate::wire::tok(&y.ln_f(&x)))
        }
        "Dirichlet" => {
            let k = 1 + (seed % 5) as usize;
            let g = Dirichlet::new((0..k).map(|_| pos(r)).collect()).unwrap();
            rt(&g)
        }
        "DiscreteUniform" => rt(&DiscreteUniform::<i32>::new(-((seed % 50) as i32) - 1, (seed % 17) as i32).unwrap()),
        "StickSequence" => {
            use rv::experimental::stick_breaking_process::StickSequence;
            let seq = StickSequence::new(UnitPowerLaw::new_unchecked(pos(r)), Some(seed));
            // a zero-width stick (break = 1) now and then: repeated ccdf values must survive the round trip
            for i in 0..(2 + seed % 5) {
                let b = if (seed + i) % 3 == 0 { 1.0 } else { 0.05 + 0.9 * r.gen::<f64>() };
                seq.push_break(b);
            }
            let js = serde_json::to_string(&seq).unwrap();
            let y: StickSequence = serde_json::from_str(&js).unwrap();
            let z: StickSequence = serde_yaml::from_str(&serde_yaml::to_string(&seq).unwrap()).unwrap();
            let b = |t: bool| if t { "T" } else { "F" };
            let jy = serde_json::to_string(&y).unwrap();
            let jz = serde_json::to_string(&z).unwrap();
            let v: serde_json::Value = serde_json::from_str(&js).unwrap();
            let mut ks = vec![];
            keys_of(&v, &mut ks);
            ks.sort();
            ks.dedup();
            format!("k:{} | {} {} | {} {} | T", ks.join(","), b(y == seq), b(z == seq), b(jy == js), b(jz == js))
        }
        "InvWishart" => rt_json(&InvWishart::new(spd(r, d), d + (seed % 5) as usize).unwrap()),
        "NormalInvWishart" => {
            let mu = DVector::from_fn(d, |_, _| real(r));
            rt_json(&NormalInvWishart::new(mu, pos(r), d + (seed % 5) as usize, spd(r, d)).unwrap())
        }
        "Crp" => rt(&Crp::new(pos(r), 1 + (seed % 40) as usize).unwrap()),
        "Partition" => {
            let n = 1 + (seed % 12) as usize;
            let mut z = vec![];
            let mut k = 0usize;
            for _ in 0..n {
                let j = r.gen_range(0..=k);
                if j == k {
                    k += 1;
                }
                z.push(j);
            }
            rt(&Partition::from_z(z).unwrap())
        }
        "Empirical" => rt_json(&Empirical::new((0..(1 + seed % 9)).map(|_| real(r)).collect())),
        "KsTwoAsymptotic" => rt(&KsTwoAsymptotic::new()),
        "GaussianSuffStat" => {
            let mut s = GaussianSuffStat::new();
            for _ in 0..(seed % 7) {
                s.observe(&real(r));
            }
            rt(&s)
        }
        "BernoulliSuffStat" => {
            let mut s = BernoulliSuffStat::new();
            for _ in 0..(seed % 7) {
                s.observe(&(r.gen::<f64>() < 0.5));
            }
            rt(&s)
        }
        "CategoricalSuffStat" => {
            let mut s = CategoricalSuffStat::new(4);
            for _ in 0..(seed % 7) {
                s.observe(&(r.gen_range(0..4) as usize));
            }
            rt(&s)
        }
        "PoissonSuffStat" => {
            let mut s = PoissonSuffStat::new();
            for _ in 0..(seed % 7) {
                s.observe(&(r.gen_range(0..30) as u32));
            }
            rt(&s)
        }
        "BetaSuffStat" => {
            let mut s = BetaSuffStat::new();
            for _ in 0..(seed % 7) {
                s.observe(&(0.01 + 0.98 * r.gen::<f64>()));
            }
            rt(&s)
        }
        "InvGammaSuffStat" => {
            let mut s = InvGammaSuffStat::new();
            for _ in 0..(seed % 7) {
                s.observe(&pos(r));
            }
            rt(&s)
        }
        "InvGaussianSuffStat" => {
            let mut s = InvGaussianSuffStat::new();
            for _ in 0..(seed % 7) {
                s.observe(&pos(r));
            }
            rt(&s)
        }
        "UnitPowerLawSuffStat" => {
            let mut s = UnitPowerLawSuffStat::new();
            for _ in 0..(seed % 7) {
                s.observe(&(0.01 + 0.98 * r.gen::<f64>()));
            }
            rt(&s)
        }
        "MvGaussianSuffStat" => {
            let mut s = MvGaussianSuffStat::new(d);
            for _ in 0..(seed % 7) {
                s.observe(&DVector::from_fn(d, |_, _| real(r)));
            }
            rt(&s)
        }
        "RBFKernel" => rt(&RBFKernel::new(pos(r)).unwrap()),
        "ConstantKernel" => rt(&ConstantKernel::new(pos(r)).unwrap()),
        "WhiteKernel" => rt(&WhiteKernel::new(pos(r)).unwrap()),
        "RationalQuadratic" => rt(&RationalQuadratic::new(pos(r), pos(r)).unwrap()),
        "ExpSineSquaredKernel" => rt(&ExpSineSquaredKernel::new(pos(r), pos(r)).unwrap()),
        "MaternKernel" => rt(&MaternKernel::new(pos(r), pos(r)).unwrap()),
        "SEardKernel" => rt(&SEardKernel::new(DVector::from_fn(d, |_, _| pos(r))).unwrap()),
        "AddKernel" => rt(&(RBFKernel::new(pos(r)).unwrap() + WhiteKernel::new(pos(r)).unwrap())),
        "ProductKernel" => rt(&(ConstantKernel::new(pos(r)).unwrap() * RationalQuadratic::new(pos(r), pos(r)).unwrap())),
        "NoiseModel" => {
            let nm = if seed % 2 == 0 {
                NoiseModel::Uniform(pos(r))
            } else {
                NoiseModel::PerPoint(DVector::from_fn(1 + (seed % 5) as usize, |_, _| pos(r)))
            };
            rt(&nm)
        }
        "GaussianProcess" => {
            let n = 2 + (seed % 6) as usize;
            let x = DMatrix::from_fn(n, d, |_, _| real(r));
            let y = DVector::from_fn(n, |_, _| real(r));
            let nm = if seed % 2 == 0 {
                NoiseModel::Uniform(0.1 + pos(r))
            } else {
                NoiseModel::PerPoint(DVector::from_fn(n, |_, _| 0.1 + pos(r)))
            };
            let k = ConstantKernel::new(pos(r)).unwrap() * RBFKernel::new(pos(r)).unwrap();
            let gp = GaussianProcess::train(k, x, y, nm).unwrap();
            let js = serde_json::to_string(&gp).unwrap();
            let g2: GaussianProcess<ProductKernel<ConstantKernel, RBFKernel>> = serde_json::from_str(&js).unwrap();
            format!("{} | {} {}", rt_json(&gp), crate::wire::tok(&gp.ln_m()), crate::wire::tok(&g2.ln_m()))
        }
        _ => return Some("NOOP".to_string()),
    })
}
