//! C15 — multivariate Gaussian family: ops that run the REAL `rv::dist::{MvGaussian, InvWishart, NormalInvWishart}`,
//! `rv::data::MvGaussianSuffStat` and the `ConjugatePrior<DVector<f64>, MvGaussian>` impl of `dist/niw/mvg_prior.rs`.
//!
//! Same line format as `lean/RvModel/Hand/DispatchC15.lean` (one line can be fed to both programs):
//!   vector <v> ::= L<d> x…      matrix <M> ::= <r> <c> L<r·c> x… (row-major; data sets: one observation per row)
//!   arm ::= D | Q   (`DataOrSuffStat::Data(&xs)` | `DataOrSuffStat::SuffStat(&stat)`, stat = new(ndims) + observe each row)
//!
//!   mvg.new - <mu> <cov>                           -> ok | E:<Variant>
//!   mvg.set_mu - <mu> <cov> <mu2>                  -> (ok | E:<Variant>) <mu()> <cov()>  = the object AFTER the call  (constructor errors: E0:<Variant>)
//!   mvg.mean_variance - <mu> <cov>                 -> <mean> <variance>
//!   mvg.ln_f - <mu> <cov> <x>                      -> f64
//!   mvg.entropy - <mu> <cov>                       -> f64
//!   mvg.ln_f_stat - <mu> <cov> <data>              -> f64   (statistic = empty_suffstat() + observe_many)
//!   mvg.set_cov_then_ln_f - <mu> <cov1> <cov2> <x> -> <ln_f before> <ln_f after set_cov> <entropy after> <ln_f fresh> <entropy fresh>
//!                                                     <mu()> <cov()> <object == fresh>
//!                                                   | E:<Variant> <ln_f after the failed set_cov> <entropy after> <mu()> <cov()> <object == clone taken before the call>
//!   mvg.from_chol - <mu> <cov> <x>                 -> N | E:MuCovDimensionMismatch <cov() of new_cholesky_unchecked>
//!                                                   | <cov() of new_cholesky> <cov() of new_cholesky_unchecked> <==> <ln_f x> <entropy> <variance()> (unchecked one)
//!                                                     <cov() of from_params(emit_params(new(mu,cov)))> <that == new(mu,cov)>
//!   mvg.draw_with_z - <mu> <cov> <seed>            -> <z> <x>   (IMPLEMENTATION ONLY: z = draw of MvGaussian::standard(d) with
//!                                                   the same seeded generator, i.e. the variates `draw` consumed; the model op
//!                                                   `mvg.draw_z - <mu> <cov> <z>` must reproduce <x>)
//!   mvg.draw_moments - <mu> <cov> <seed> <n>       -> <sample mean> <sample covariance>   (IMPLEMENTATION ONLY, statistical)
//!   mvgstat.observe_forget - <data> L<k> i…        -> <n> <sum_x> <sum_x_sq>   (observe every row, then forget rows i… in order)
//!   iw.new - <scale> <df>                          -> ok | E:<Variant>
//!   iw.ln_f - <scale> <df> <x>                     -> f64
//!   iw.mean / iw.mode - <scale> <df>               -> N | S <M>
//!   iw.sample_vs_draws - <scale> <df> <seed> <n>   -> T | F <i> <sample(n)[i]> <i-th successive draw>   (IMPLEMENTATION ONLY: the overriding batch sampler
//!                                                   `InvWishart::sample` against n successive `draw`s from the same seeded generator state; exact)
//!   iw.sample_mean - <scale> <df> <seed> <n>       -> mean of sample(n)   (IMPLEMENTATION ONLY, statistical: ≈ scale/(df−p−1))
//!   iw.draw_mean - <scale> <df> <seed> <n>         -> <sample mean of n draws>   (IMPLEMENTATION ONLY, statistical)
//!   niw.new - <mu> <k> <df> <scale>                -> ok | E:<Variant>
//!   niw.ln_f - <mu> <k> <df> <scale> <mvg mu> <mvg cov>  -> f64 | E:… (NIW) | E1:… (MvGaussian)
//!   niw.posterior - <niw> <arm> <data>             -> <mu> <k> <df> <scale>
//!   niw.ln_m - <niw> <arm> <data>                  -> f64
//!   niw.ln_pp - <niw> <y> <arm> <data>             -> f64
//!   mat.det / mat.inverse / mat.chol / mat.chol_inverse - <M>  -> nalgebra `determinant()` | `try_inverse()` (N | S <M>) |
//!                                                   `cholesky()` factor (N | S <L>) | `Cholesky::inverse()` and `ln_determinant()` (N | S <M> f64)
//!   niw.draw_with_z - <niw> <seed>                 -> <Z (df+1)×d> <mu()> <cov()>  (IMPLEMENTATION ONLY: Z = the variates `draw` consumed, recovered by
//!                                                   sampling MvGaussian::standard(d) from the same seeded generator; model op `niw.draw_z <niw> <Z>`)
//!   niw.draw_maha - <niw> <seed> <n>               -> mean over n draws of k·(μ−μ0)ᵀΣ⁻¹(μ−μ0)  (IMPLEMENTATION ONLY; must be ≈ d for every k)
//!   niw.draw_check - <niw> <seed>                  -> T|F  (IMPLEMENTATION ONLY: the drawn MvGaussian is supported by the prior)
#![allow(unused)]
use crate::wire::*;
use nalgebra::{DMatrix, DVector};
use rand::SeedableRng;
use rand_xoshiro::Xoshiro256Plus;
use rv::data::{DataOrSuffStat, MvGaussianSuffStat};
use rv::dist::{InvWishart, MvGaussian, NormalInvWishart};
use rv::traits::*;

fn rd_vec(a: &mut Args) -> DVector<f64> {
    DVector::from_vec(a.list(|a| a.f()))
}
fn rd_mat(a: &mut Args) -> DMatrix<f64> {
    let r = a.n() as usize;
    let c = a.n() as usize;
    let xs = a.list(|a| a.f());
    assert!(xs.len() == r * c, "wire: bad matrix");
    DMatrix::from_row_slice(r, c, &xs)
}
fn rd_data(a: &mut Args) -> Vec<DVector<f64>> {
    let m = rd_mat(a);
    (0..m.nrows()).map(|i| m.row(i).transpose().into_owned()).collect()
}
fn wr_vec(v: &DVector<f64>) -> String {
    tok(&v.iter().cloned().collect::<Vec<f64>>())
}
fn wr_mat(m: &DMatrix<f64>) -> String {
    let mut xs = Vec::with_capacity(m.nrows() * m.ncols());
    for i in 0..m.nrows() {
        for j in 0..m.ncols() {
            xs.push(m[(i, j)]);
        }
    }
    format!("{} {} {}", m.nrows(), m.ncols(), tok(&xs))
}
fn err_pre<E: std::fmt::Debug>(pre: &str, e: &E) -> String {
    err_tok(e).replacen("E", pre, 1)
}
fn rd_niw(a: &mut Args) -> (Result<NormalInvWishart, rv::dist::NormalInvWishartError>, usize) {
    let mu = rd_vec(a);
    let k = a.f();
    let df = a.n() as usize;
    let scale = rd_mat(a);
    let d = mu.len();
    (NormalInvWishart::new(mu, k, df, scale), d)
}
/// runs `f` on the `DataOrSuffStat` the line describes
fn with_arm<T>(a: &mut Args, ndims: usize, f: impl FnOnce(&DataOrSuffStat<DVector<f64>, MvGaussian>) -> T) -> T {
    let arm = a.tag();
    let data = rd_data(a);
    match arm.as_str() {
        "D" => f(&DataOrSuffStat::Data(&data)),
        "Q" => {
            let mut stat = MvGaussianSuffStat::new(ndims);
            for x in data.iter() {
                stat.observe(x);
            }
            f(&DataOrSuffStat::SuffStat(&stat))
        }
        t => panic!("wire: bad arm {t}"),
    }
}

pub fn dispatch(op: &str, _kind: &str, a: &mut Args) -> Option<String> {
    Some(match op {
        "mvg.new" => {
            let (mu, cov) = (rd_vec(a), rd_mat(a));
            match MvGaussian::new(mu, cov) {
                Ok(_) => "ok".to_string(),
                Err(e) => err_tok(&e),
            }
        }
        "mvg.set_mu" => {
            let (mu, cov, mu2) = (rd_vec(a), rd_mat(a), rd_vec(a));
            match MvGaussian::new(mu, cov) {
                Err(e) => err_pre("E0", &e),
                Ok(mut g) => {
                    let r = g.set_mu(mu2.clone());
                    // the object AFTER the call is printed whether the setter failed or not
                    format!("{} {} {}", match r { Ok(()) => "ok".to_string(), Err(e) => err_tok(&e) }, wr_vec(g.mu()), wr_mat(g.cov()))
                }
            }
        }
        "mvg.mean_variance" => {
            let (mu, cov) = (rd_vec(a), rd_mat(a));
            match MvGaussian::new(mu, cov) {
                Err(e) => err_tok(&e),
                Ok(g) => {
                    let mean: DVector<f64> = g.mean().unwrap();
                    let mode: DVector<f64> = g.mode().unwrap();
                    assert!(mean == mode);
                    let var: DMatrix<f64> = g.variance().unwrap();
                    format!("{} {}", wr_vec(&mean), wr_mat(&var))
                }
            }
        }
        "mvg.ln_f" => {
            let (mu, cov, x) = (rd_vec(a), rd_mat(a), rd_vec(a));
            match MvGaussian::new(mu, cov) {
                Err(e) => err_tok(&e),
                Ok(g) => tok(&g.ln_f(&x)),
            }
        }
        "mvg.entropy" => {
            let (mu, cov) = (rd_vec(a), rd_mat(a));
            match MvGaussian::new(mu, cov) {
                Err(e) => err_tok(&e),
                Ok(g) => tok(&g.entropy()),
            }
        }
        "mvg.ln_f_stat" => {
            let (mu, cov, data) = (rd_vec(a), rd_mat(a), rd_data(a));
            match MvGaussian::new(mu, cov) {
                Err(e) => err_tok(&e),
                Ok(g) => {
                    let mut stat = g.empty_suffstat();
                    stat.observe_many(&data);
                    tok(&g.ln_f_stat(&stat))
                }
            }
        }
        "mvg.set_cov_then_ln_f" => {
            let (mu, cov1, cov2, x) = (rd_vec(a), rd_mat(a), rd_mat(a), rd_vec(a));
            match MvGaussian::new(mu.clone(), cov1) {
                Err(e) => err_pre("E0", &e),
                Ok(mut g) => {
                    let before = g.ln_f(&x);
                    let orig = g.clone();
                    match g.set_cov(cov2.clone()) {
                        Err(e) => [err_tok(&e), tok(&g.ln_f(&x)), tok(&g.entropy()), wr_vec(g.mu()), wr_mat(g.cov()), tok(&(g == orig))].join(" "),
                        Ok(()) => {
                            let after = g.ln_f(&x);
                            let h = g.entropy();
                            match MvGaussian::new(mu, cov2) {
                                Err(e) => err_pre("E2", &e),
                                Ok(fresh) => [
                                    tok(&before),
                                    tok(&after),
                                    tok(&h),
                                    tok(&fresh.ln_f(&x)),
                                    tok(&fresh.entropy()),
                                    wr_vec(g.mu()),
                                    wr_mat(g.cov()),
                                    tok(&(g == fresh)),
                                ]
                                .join(" "),
                            }
                        }
                    }
                }
            }
        }
        "mvg.from_chol" => {
            let (mu, cov, x) = (rd_vec(a), rd_mat(a), rd_vec(a));
            match cov.clone().cholesky() {
                None => "N".to_string(),
                Some(chol) => {
                    let b = MvGaussian::new_cholesky_unchecked(mu.clone(), chol.clone());
                    match MvGaussian::new_cholesky(mu.clone(), chol) {
                        Err(e) => format!("{} {}", err_tok(&e), wr_mat(b.cov())),
                        Ok(ac) => match MvGaussian::new(mu, cov) {
                            Err(e) => err_pre("E1", &e),
                            Ok(c) => {
                                let r = MvGaussian::from_params(c.emit_params());
                                let var: DMatrix<f64> = b.variance().unwrap();
                                [
                                    wr_mat(ac.cov()),
                                    wr_mat(b.cov()),
                                    tok(&(b == ac)),
                                    tok(&b.ln_f(&x)),
                                    tok(&b.entropy()),
                                    wr_mat(&var),
                                    wr_mat(r.cov()),
                                    tok(&(r == c)),
                                ]
                                .join(" ")
                            }
                        },
                    }
                }
            }
        }
        "mvg.draw_with_z" => {
            let (mu, cov) = (rd_vec(a), rd_mat(a));
            let seed = a.n();
            let d = mu.len();
            match MvGaussian::new(mu, cov) {
                Err(e) => err_tok(&e),
                Ok(g) => {
                    let mut r1 = Xoshiro256Plus::seed_from_u64(seed);
                    let mut r2 = Xoshiro256Plus::seed_from_u64(seed);
                    let x: DVector<f64> = g.draw(&mut r1);
                    // the same generator state yields the same standard-normal variates; with mu = 0 and L = I the draw IS z
                    let z: DVector<f64> = MvGaussian::standard(d).unwrap().draw(&mut r2);
                    format!("{} {}", wr_vec(&z), wr_vec(&x))
                }
            }
        }
        "mvg.draw_moments" => {
            let (mu, cov) = (rd_vec(a), rd_mat(a));
            let seed = a.n();
            let n = a.n() as usize;
            let d = mu.len();
            match MvGaussian::new(mu, cov) {
                Err(e) => err_tok(&e),
                Ok(g) => {
                    let mut rng = Xoshiro256Plus::seed_from_u64(seed);
                    let xs: Vec<DVector<f64>> = g.sample(n, &mut rng);
                    let mut m = DVector::<f64>::zeros(d);
                    for x in xs.iter() {
                        m += x;
                    }
                    m /= n as f64;
                    let mut c = DMatrix::<f64>::zeros(d, d);
                    for x in xs.iter() {
                        let dx = x - &m;
                        c += &dx * dx.transpose();
                    }
                    c /= (n as f64) - 1.0;
                    format!("{} {}", wr_vec(&m), wr_mat(&c))
                }
            }
        }
        "mvgstat.observe_forget" => {
            let m = rd_mat(a);
            let d = m.ncols();
            let data: Vec<DVector<f64>> = (0..m.nrows()).map(|i| m.row(i).transpose().into_owned()).collect();
            let idx = a.list(|a| a.n() as usize);
            let mut stat = MvGaussianSuffStat::new(d);
            for x in data.iter() {
                stat.observe(x);
            }
            for i in idx {
                stat.forget(&data[i]);
            }
            assert!(SuffStat::n(&stat) == stat.n());
            format!("{} {} {}", stat.n(), wr_vec(stat.sum_x()), wr_mat(stat.sum_x_sq()))
        }
        "iw.new" => {
            let sc = rd_mat(a);
            let df = a.n() as usize;
            match InvWishart::new(sc, df) {
                Ok(_) => "ok".to_string(),
                Err(e) => err_tok(&e),
            }
        }
        "iw.ln_f" => {
            let sc = rd_mat(a);
            let df = a.n() as usize;
            let x = rd_mat(a);
            match InvWishart::new(sc, df) {
                Err(e) => err_tok(&e),
                Ok(iw) => tok(&iw.ln_f(&x)),
            }
        }
        "iw.mean" | "iw.mode" => {
            let sc = rd_mat(a);
            let df = a.n() as usize;
            match InvWishart::new(sc, df) {
                Err(e) => err_tok(&e),
                Ok(iw) => {
                    let r: Option<DMatrix<f64>> = if op == "iw.mean" { iw.mean() } else { iw.mode() };
                    match r {
                        None => "N".to_string(),
                        Some(m) => format!("S {}", wr_mat(&m)),
                    }
                }
            }
        }
        "iw.sample_vs_draws" => {
            // `InvWishart::sample` OVERRIDES the trait default (wishart.rs:198-216; MvGaussian and NormalInvWishart do not override it):
            // from the same generator state it must return exactly what n successive `draw`s return
            let sc = rd_mat(a);
            let df = a.n() as usize;
            let seed = a.n();
            let n = a.n() as usize;
            match InvWishart::new(sc, df) {
                Err(e) => err_tok(&e),
                Ok(iw) => {
                    let mut r1 = Xoshiro256Plus::seed_from_u64(seed);
                    let mut r2 = Xoshiro256Plus::seed_from_u64(seed);
                    let batch: Vec<DMatrix<f64>> = iw.sample(n, &mut r1);
                    let mut out = "T".to_string();
                    if batch.len() != n {
                        out = format!("F len {}", batch.len());
                    } else {
                        for (i, s) in batch.iter().enumerate() {
                            let d: DMatrix<f64> = iw.draw(&mut r2);
                            if &d != s {
                                out = format!("F {} {} {}", i, wr_mat(s), wr_mat(&d));
                                break;
                            }
                        }
                    }
                    out
                }
            }
        }
        "iw.sample_mean" => {
            // mean of `sample(n)` (the batch sampler), to be compared with inv_scale / (df − p − 1)
            let sc = rd_mat(a);
            let df = a.n() as usize;
            let seed = a.n();
            let n = a.n() as usize;
            match InvWishart::new(sc.clone(), df) {
                Err(e) => err_tok(&e),
                Ok(iw) => {
                    let mut rng = Xoshiro256Plus::seed_from_u64(seed);
                    let p = sc.nrows();
                    let xs: Vec<DMatrix<f64>> = iw.sample(n, &mut rng);
                    let mut m = DMatrix::<f64>::zeros(p, p);
                    for x in xs.iter() {
                        m += x;
                    }
                    m /= n as f64;
                    wr_mat(&m)
                }
            }
        }
        "iw.draw_mean" => {
            let sc = rd_mat(a);
            let df = a.n() as usize;
            let seed = a.n();
            let n = a.n() as usize;
            match InvWishart::new(sc.clone(), df) {
                Err(e) => err_tok(&e),
                Ok(iw) => {
                    let mut rng = Xoshiro256Plus::seed_from_u64(seed);
                    let p = sc.nrows();
                    let mut m = DMatrix::<f64>::zeros(p, p);
                    for _ in 0..n {
                        let x: DMatrix<f64> = iw.draw(&mut rng);
                        m += x;
                    }
                    m /= n as f64;
                    wr_mat(&m)
                }
            }
        }
        "niw.new" => match rd_niw(a).0 {
            Ok(_) => "ok".to_string(),
            Err(e) => err_tok(&e),
        },
        "niw.ln_f" => {
            let (r, _) = rd_niw(a);
            let (gmu, gcov) = (rd_vec(a), rd_mat(a));
            match r {
                Err(e) => err_tok(&e),
                Ok(niw) => match MvGaussian::new(gmu, gcov) {
                    Err(e) => err_pre("E1", &e),
                    Ok(g) => tok(&niw.ln_f(&g)),
                },
            }
        }
        "niw.posterior" => {
            let (r, d) = rd_niw(a);
            match r {
                Err(e) => err_tok(&e),
                Ok(niw) => {
                    let p = with_arm(a, d, |x| niw.posterior(x));
                    format!("{} {} {} {}", wr_vec(p.mu()), tok(&p.k()), p.df(), wr_mat(p.scale()))
                }
            }
        }
        "niw.ln_m" => {
            let (r, d) = rd_niw(a);
            match r {
                Err(e) => err_tok(&e),
                Ok(niw) => tok(&with_arm(a, d, |x| niw.ln_m(x))),
            }
        }
        "niw.ln_pp" => {
            let (r, d) = rd_niw(a);
            match r {
                Err(e) => err_tok(&e),
                Ok(niw) => {
                    let y = rd_vec(a);
                    tok(&with_arm(a, d, |x| niw.ln_pp(&y, x)))
                }
            }
        }
        "niw.draw_with_z" => {
            let (r, d) = rd_niw(a);
            let seed = a.n();
            match r {
                Err(e) => err_tok(&e),
                Ok(niw) => {
                    let mut r1 = Xoshiro256Plus::seed_from_u64(seed);
                    let mut r2 = Xoshiro256Plus::seed_from_u64(seed);
                    let g: MvGaussian = niw.draw(&mut r1);
                    // the same generator state yields the same standard-normal variates: df vectors for the inverse-Wishart
                    // part, one for the mean; with mu = 0 and L = I the draw of the standard Gaussian IS the variate vector
                    let zs: Vec<DVector<f64>> = MvGaussian::standard(d).unwrap().sample(niw.df() + 1, &mut r2);
                    let mut zm = DMatrix::<f64>::zeros(zs.len(), d);
                    for (i, z) in zs.iter().enumerate() {
                        for j in 0..d {
                            zm[(i, j)] = z[j];
                        }
                    }
                    format!("{} {} {}", wr_mat(&zm), wr_vec(g.mu()), wr_mat(g.cov()))
                }
            }
        }
        "niw.draw_maha" => {
            let (r, _) = rd_niw(a);
            let seed = a.n();
            let n = a.n() as usize;
            match r {
                Err(e) => err_tok(&e),
                Ok(niw) => {
                    let mut rng = Xoshiro256Plus::seed_from_u64(seed);
                    let mut acc = 0.0;
                    for _ in 0..n {
                        let g: MvGaussian = niw.draw(&mut rng);
                        let dev = g.mu() - niw.mu();
                        let sol = g.cov().clone().cholesky().unwrap().solve(&dev);
                        acc += niw.k() * dev.dot(&sol);
                    }
                    tok(&(acc / n as f64))
                }
            }
        }
        "niw.draw_check" => {
            let (r, _) = rd_niw(a);
            let seed = a.n();
            match r {
                Err(e) => err_tok(&e),
                Ok(niw) => {
                    let mut rng = Xoshiro256Plus::seed_from_u64(seed);
                    let g: MvGaussian = niw.draw(&mut rng);
                    tok(&niw.supports(&g))
                }
            }
        }
        // ---- the nalgebra routines rv delegates to (for the correspondence of the linear-algebra layer of the model)
        "mat.det" => tok(&rd_mat(a).determinant()),
        "mat.inverse" => match rd_mat(a).try_inverse() {
            None => "N".to_string(),
            Some(m) => format!("S {}", wr_mat(&m)),
        },
        "mat.chol" => match rd_mat(a).cholesky() {
            None => "N".to_string(),
            Some(c) => format!("S {}", wr_mat(&c.l())),
        },
        "mat.chol_inverse" => match rd_mat(a).cholesky() {
            None => "N".to_string(),
            Some(c) => format!("S {} {}", wr_mat(&c.inverse()), tok(&c.ln_determinant())),
        },
        _ => return None,
    })
}
