//! C20 — implementation-side ops for the goodness-of-fit code (misc/ks.rs, misc/x2.rs, misc/mardia.rs,
//! dist/empirical.rs).  Same op names as lean/RvModel/Hand/DispatchC20.lean.
//!
//! line formats (kind token is always `-`):
//!   ks_test        - <xs L..> <vals L..>            -> `<d> <p>`        closure: cdf(x) = vals[first i with xs[i].to_bits()==x.to_bits()]
//!   ks_cdf         - <n> <d>                        -> `<1 - ks_cdf(n,d)>` (ks_cdf is private: reached through ks_test on the
//!                                                       sample 0,1,…,n-1 with cdf(0)=d, cdf(i)=i/n, whose statistic is exactly d)
//!   ks_two_sample  - <xs L..> <ys L..> <mode> <alt> -> `<stat> <p>` | `E:EmptySlice` | `E:TooLongForExact` | PANIC
//!                       mode ∈ exact asymptotic auto ; alt ∈ two_sided less greater
//!   ks_two_sample.ij - <m> <n> <i> <j> <mode> <alt>  -> same; sample built so that (F_m - G_n) peaks at i/m - j/n (see notes)
//!   empirical.cdf  - <xs L..> <x>                   -> `<cdf>`            (Empirical::new(xs).cdf(&x))
//!   empirical.mean / empirical.variance - <xs L..>  -> option token
//!   empirical.err  - <xs L..> <ys L..>              -> `<err>`
//!   empirical.range - <xs L..>                      -> `<min> <max>`
//!   empirical.queries - <ctor> <xs L..> <qs L..>    -> `L<k> cdf(q)… <mean opt> <variance opt> <min> <max>`
//!                       ctor ∈ new (Empirical::new(xs)) | from_params (Parameterized::from_params on a parameter object whose
//!                       public `xs` is exactly the given, possibly unsorted, vector) | roundtrip (from_params(new(xs).emit_params()))
//!   empirical.draws   - <ctor> <xs L..> <words L..> -> `L<k> draw…`  one `draw` per word, from `Xoshiro256Plus::seed_from_u64(word)` (implementation only)
//!   mardia         - <n> <d> <row-major data L..>   -> `<pa> <pb>`
//!   c20.child      - <any other line…>              -> runs the rest of the line in a CHILD harness process and reports its
//!                                                       answer, or `ABORT` if the child died by a signal (stack overflow of `mpow` at n = 0)
//! Calls that may not return (`ks_test` on an empty sample: `mpow(…, 0)` recurses forever and overflows the stack, which would
//! kill the whole harness) are routed through `c20.child` automatically.
#![allow(unused)]
use crate::wire::*;
use rv::dist::Empirical;
use rv::misc::{ks_test, ks_two_sample, mardia, KsAlternative, KsMode};
use rv::traits::*;
use std::io::Write;

fn mode_of(t: &str) -> KsMode {
    match t {
        "exact" => KsMode::Exact,
        "asymptotic" => KsMode::Asymptotic,
        "auto" => KsMode::Auto,
        _ => panic!("wire: bad mode {t}"),
    }
}
fn alt_of(t: &str) -> KsAlternative {
    match t {
        "two_sided" => KsAlternative::TwoSided,
        "less" => KsAlternative::Less,
        "greater" => KsAlternative::Greater,
        _ => panic!("wire: bad alternative {t}"),
    }
}

/// run one protocol line in a child copy of this executable; the child's death by signal is reported, not suffered
fn child(line: &str) -> String {
    let exe = std::env::current_exe().expect("exe");
    let mut ch = std::process::Command::new(exe)
        .stdin(std::process::Stdio::piped())
        .stdout(std::process::Stdio::piped())
        .stderr(std::process::Stdio::null())
        .env("RVH_C20_CHILD", "1")
        // a small thread stack is irrelevant (main.rs sets 64 MiB); the overflow is reached within a second
        .spawn()
        .expect("spawn");
    {
        let mut si = ch.stdin.take().unwrap();
        writeln!(si, "{}", line).unwrap();
    }
    let out = ch.wait_with_output().expect("wait");
    if !out.status.success() {
        #[cfg(unix)]
        {
            use std::os::unix::process::ExitStatusExt;
            if let Some(s) = out.status.signal() {
                let _ = s; return "ABORT".to_string();
            }
        }
        return "ABORT".to_string();
    }
    String::from_utf8_lossy(&out.stdout).trim().to_string()
}

/// the three public ways to an `Empirical`
fn empirical_of(ctor: &str, xs: Vec<f64>) -> Empirical {
    match ctor {
        "new" => Empirical::new(xs),
        "from_params" => {
            // `EmpiricalParameters` is not re-exported: obtain one from `emit_params` and overwrite its public field
            let mut p = Empirical::new(vec![0.0]).emit_params();
            p.xs = xs;
            Empirical::from_params(p)
        }
        "roundtrip" => Empirical::from_params(Empirical::new(xs).emit_params()),
        _ => panic!("wire: bad ctor {ctor}"),
    }
}

fn two_sample(xs: &[f64], ys: &[f64], mode: KsMode, alt: KsAlternative) -> String {
    match ks_two_sample(xs, ys, mode, alt) {
        Ok((s, p)) => format!("{} {}", tok(&s), tok(&p)),
        Err(e) => err_tok(&e),
    }
}

pub fn dispatch(op: &str, _kind: &str, a: &mut Args) -> Option<String> {
    let in_child = std::env::var("RVH_C20_CHILD").is_ok();
    Some(match op {
        "ks_test" => {
            let xs = a.list(|a| a.f());
            let vals = a.list(|a| a.f());
            assert_eq!(xs.len(), vals.len(), "wire: ks_test lengths");
            if xs.is_empty() && !in_child {
                return Some(child("ks_test - L0 L0"));
            }
            let keys: Vec<u64> = xs.iter().map(|x| x.to_bits()).collect();
            let cdf = |x: f64| {
                let b = x.to_bits();
                vals[keys.iter().position(|k| *k == b).expect("cdf: unknown point")]
            };
            let (d, p) = ks_test(&xs, cdf);
            format!("{} {}", tok(&d), tok(&p))
        }
        "ks_cdf" => {
            let n = a.n() as usize;
            let d = a.f();
            if n == 0 && !in_child {
                return Some(child(&format!("ks_cdf - 0 {}", tok(&d))));
            }
            let xs: Vec<f64> = (0..n).map(|i| i as f64).collect();
            let nf = n as f64;
            let (dd, p) = ks_test(&xs, |x: f64| if x == 0.0 { d } else { x / nf });
            assert!(n == 0 || dd.to_bits() == d.abs().to_bits(), "ks_cdf: statistic {dd} is not the requested d {d}");
            tok(&p)
        }
        "ks_two_sample" => {
            let xs = a.list(|a| a.f());
            let ys = a.list(|a| a.f());
            let mode = mode_of(&a.tag());
            let alt = alt_of(&a.tag());
            two_sample(&xs, &ys, mode, alt)
        }
        "ks_two_sample.ij" => {
            // pooled order:  j ys, i xs, (n-j) ys, (m-i) xs   — all distinct;  F_m - G_n is i/m - j/n at the (j+1)-th y
            let (m, n, i, j) = (a.n() as usize, a.n() as usize, a.n() as usize, a.n() as usize);
            let mode = mode_of(&a.tag());
            let alt = alt_of(&a.tag());
            assert!(i <= m && j <= n, "wire: ij");
            let mut xs = Vec::new();
            let mut ys = Vec::new();
            let mut t = 0.0;
            for _ in 0..j { ys.push(t); t += 1.0; }
            for _ in 0..i { xs.push(t); t += 1.0; }
            for _ in j..n { ys.push(t); t += 1.0; }
            for _ in i..m { xs.push(t); t += 1.0; }
            two_sample(&xs, &ys, mode, alt)
        }
        "empirical.cdf" => {
            let xs = a.list(|a| a.f());
            let x = a.f();
            tok(&Empirical::new(xs).cdf(&x))
        }
        "empirical.mean" => {
            let xs = a.list(|a| a.f());
            let m: Option<f64> = Empirical::new(xs).mean();
            tok(&m)
        }
        "empirical.variance" => {
            let xs = a.list(|a| a.f());
            let v: Option<f64> = Empirical::new(xs).variance();
            tok(&v)
        }
        "empirical.err" => {
            let xs = a.list(|a| a.f());
            let ys = a.list(|a| a.f());
            tok(&Empirical::new(xs).err(&Empirical::new(ys)))
        }
        "empirical.range" => {
            let xs = a.list(|a| a.f());
            let e = Empirical::new(xs);
            let r = e.range();
            format!("{} {}", tok(&r.0), tok(&r.1))
        }
        "empirical.queries" => {
            let ctor = a.tag();
            let xs = a.list(|a| a.f());
            let qs = a.list(|a| a.f());
            let e = empirical_of(&ctor, xs);
            let cdfs: Vec<f64> = qs.iter().map(|q| e.cdf(q)).collect();
            let m: Option<f64> = e.mean();
            let v: Option<f64> = e.variance();
            let r = e.range();
            format!("{} {} {} {} {}", tok(&cdfs), tok(&m), tok(&v), tok(&r.0), tok(&r.1))
        }
        "empirical.draws" => {
            let ctor = a.tag();
            let xs = a.list(|a| a.f());
            let words = a.words();
            let e = empirical_of(&ctor, xs);
            let ds: Vec<f64> = words
                .iter()
                .map(|w| {
                    use rand::SeedableRng;
                    let mut rng = rand_xoshiro::Xoshiro256Plus::seed_from_u64(*w);
                    e.draw(&mut rng)
                })
                .collect();
            tok(&ds)
        }
        "mardia" => {
            let n = a.n() as usize;
            let d = a.n() as usize;
            let data = a.list(|a| a.f());
            assert_eq!(data.len(), n * d, "wire: mardia data");
            let xs: Vec<nalgebra::DVector<f64>> =
                (0..n).map(|r| nalgebra::DVector::from_row_slice(&data[r * d..(r + 1) * d])).collect();
            let (pa, pb) = mardia(&xs);
            format!("{} {}", tok(&pa), tok(&pb))
        }
        "c20.child" => {
            let mut rest = Vec::new();
            while a.rest() > 0 {
                rest.push(a.tag());
            }
            // the first token after the kind is the op of the inner line
            child(&rest.join(" "))
        }
        _ => return None,
    })
}
