//! hand-written operations (algorithmic code with hand models; scripted generators)
#![allow(unused)]
use crate::wire::*;
use rv::prelude::*;

// ---- constructors / writers the generator cannot derive (derived fields)
#[allow(non_snake_case)]
pub fn mk_VonMises(a: &mut Args) -> VonMises {
    let mu = a.f();
    let k = a.f();
    let _i0_k = a.f(); // derived field of the model: recomputed by the real constructor
    VonMises::new_unchecked(mu, k)
}
#[allow(non_snake_case)]
pub fn wr_VonMises(v: &VonMises) -> String {
    [tok(&v.mu()), tok(&v.k()), tok(&rv::misc::bessel::i0(v.k()))].join(" ")
}

pub fn dispatch(op: &str, kind: &str, a: &mut Args) -> Option<String> {
    use rv::misc::LogSumExp;
    // contributed op tables (one module per tag); each gets a fresh copy of the arguments
    for f in crate::CONTRIB.iter() {
        let mut b = a.clone();
        if let Some(r) = f(op, kind, &mut b) {
            return Some(r);
        }
    }
    Some(match op {
        // ---- C09: history of a Mixture<Gaussian> (generic struct: no generated history runner).
        // hist.MixtureGaussian - <weights> <mus> <sigmas> <n> steps…   steps: q <x> | lw | w <weights> |
        //   cw <weights> <mus> <sigmas> (components then weights, sizes may change) | clone | eq | comb <weights> <mus> <sigmas> <warm>
        // every query prints "got fresh" (fresh = Mixture::new_unchecked of the current parameters), pairs joined by " | "
        "hist.MixtureGaussian" => {
            use rv::dist::{Gaussian, Mixture};
            use rv::traits::*;
            let mk = |mus: &Vec<f64>, sig: &Vec<f64>| -> Vec<Gaussian> { mus.iter().zip(sig.iter()).map(|(m, s)| Gaussian::new_unchecked(*m, *s)).collect() };
            let mut w = a.list(|a| a.f());
            let mut mus = a.list(|a| a.f());
            let mut sig = a.list(|a| a.f());
            let mut live: Mixture<Gaussian> = Mixture::new_unchecked(w.clone(), mk(&mus, &sig));
            let n = a.n();
            let mut out: Vec<String> = vec![];
            for _ in 0..n {
                let t = a.tag();
                match t.as_str() {
                    "q" => {
                        let x = a.f();
                        let fresh: Mixture<Gaussian> = Mixture::new_unchecked(w.clone(), mk(&mus, &sig));
                        out.push(format!("{} {}", tok(&live.ln_f(&x)), tok(&fresh.ln_f(&x))));
                    }
                    "lw" => {
                        let fresh: Mixture<Gaussian> = Mixture::new_unchecked(w.clone(), mk(&mus, &sig));
                        out.push(format!("{} {}", tok(&live.ln_weights().to_vec()), tok(&fresh.ln_weights().to_vec())));
                    }
                    "w" => {
                        w = a.list(|a| a.f());
                        live.set_weights_unchecked(w.clone());
                    }
                    "cw" => {
                        w = a.list(|a| a.f());
                        mus = a.list(|a| a.f());
                        sig = a.list(|a| a.f());
                        live.set_components_unchecked(mk(&mus, &sig));
                        live.set_weights_unchecked(w.clone());
                    }
                    "clone" => {
                        live = live.clone();
                    }
                    // comb <weights> <mus> <sigmas> <warm>: live = Mixture::combine([live, other]); bit 0 of warm queries `other`
                    // first, bit 1 queries `live` first (an input whose ln_weights cache is filled must not leak into the result)
                    "comb" => {
                        let w2 = a.list(|a| a.f());
                        let mus2 = a.list(|a| a.f());
                        let sig2 = a.list(|a| a.f());
                        let warm = a.n();
                        let other: Mixture<Gaussian> = Mixture::new_unchecked(w2.clone(), mk(&mus2, &sig2));
                        if warm & 1 == 1 { let _ = other.ln_f(&0.0_f64); }
                        if warm & 2 == 2 { let _ = live.ln_f(&0.0_f64); }
                        let old = std::mem::replace(&mut live, Mixture::new_unchecked(vec![], vec![]));
                        let both = (if old.k() > 0 { 1.0 } else { 0.0 }) + (if other.k() > 0 { 1.0 } else { 0.0 });
                        live = Mixture::combine(vec![old, other]);
                        w = w.iter().map(|x| x / both).chain(w2.iter().map(|x| x / both)).collect();
                        mus.extend(mus2);
                        sig.extend(sig2);
                    }
                    "eq" => {
                        let fresh: Mixture<Gaussian> = Mixture::new_unchecked(w.clone(), mk(&mus, &sig));
                        out.push(format!("{} T", tok(&(live == fresh))));
                    }
                    _ => return Some("BAD:step".to_string()),
                }
            }
            out.join(" | ")
        }
        // ---- C08: entropies the translator cannot reach (generic helper count_entropy)
        "hand.Poisson.entropy" => {
            use rv::traits::Entropy;
            let rate = a.f();
            tok(&rv::dist::Poisson::new_unchecked(rate).entropy())
        }
        // ---- C12 / C03: DiscreteUniform<T> over integer kinds (the translator instantiates X with the real carrier)
        // hand.DiscreteUniform.invcdf <kind> a b p   /  hand.DiscreteUniform.cdf <kind> a b x   (X = T = kind)
        "hand.DiscreteUniform.invcdf" | "hand.DiscreteUniform.cdf" => {
            use rv::dist::DiscreteUniform;
            use rv::traits::*;
            let (lo, hi) = (a.i(), a.i());
            macro_rules! du {
                ($t:ty) => {{
                    let d = DiscreteUniform::<$t>::new_unchecked(lo as $t, hi as $t);
                    if op.ends_with("invcdf") {
                        let p = a.f();
                        let x: $t = d.invcdf(p);
                        format!("{}", x)
                    } else {
                        let x = a.i() as $t;
                        tok(&<DiscreteUniform<$t> as Cdf<$t>>::cdf(&d, &x))
                    }
                }};
            }
            match kind {
                "i8" => du!(i8),
                "i16" => du!(i16),
                "i32" => du!(i32),
                "i64" => du!(i64),
                "u8" => du!(u8),
                "u16" => du!(u16),
                "u32" => du!(u32),
                _ => "NOOP".to_string(),
            }
        }
        // ---- C03: KsTwoAsymptotic cdf / pdf (private `compute`, reached through the public cdf and pdf)
        "hand.KsTwoAsymptotic.cdf_pdf" => {
            use rv::traits::*;
            let x = a.f();
            let d = rv::dist::KsTwoAsymptotic::new();
            let c: f64 = <rv::dist::KsTwoAsymptotic as Cdf<f64>>::cdf(&d, &x);
            let f: f64 = <rv::dist::KsTwoAsymptotic as HasDensity<f64>>::ln_f(&d, &x).exp();
            format!("{} {}", tok(&c), tok(&f))
        }
        "logsumexp" => {
            let xs = a.list(|a| a.f());
            tok(&xs.iter().logsumexp())
        }
        // ---- C14: special functions and quadrature tables
        "gauss_legendre_table" => {
            let n = a.n() as usize;
            let (w, x) = rv::misc::gauss_legendre_table(n);
            format!("{} {}", tok(&w), tok(&x))
        }
        "gauss_legendre_quadrature_monomial" => {
            let n = a.n() as usize;
            let k = a.n() as i32;
            let (lo, hi) = (a.f(), a.f());
            tok(&rv::misc::gauss_legendre_quadrature(|x: f64| x.powi(k), n, (lo, hi)))
        }
        "bessel_iv" => {
            let (v, z) = (a.f(), a.f());
            match rv::misc::bessel::bessel_iv(v, z) {
                Ok(r) => tok(&r),
                Err(e) => err_tok(&e),
            }
        }
        "ln_gammafn" => tok(&rv::misc::ln_gammafn(a.f())),
        "gammafn" => tok(&rv::misc::gammafn(a.f())),
        "mvgamma" => {
            let p = a.n() as usize;
            tok(&rv::misc::mvgamma(p, a.f()))
        }
        // ---- C09 probes (call-history independence of equality / queries)
        "c09.mixture_eq_after_query" => {
            let m1 = Mixture::new(vec![0.25, 0.75], vec![Gaussian::new_unchecked(0.0, 1.0), Gaussian::new_unchecked(1.0, 2.0)]).unwrap();
            let m2 = m1.clone();
            let before = m1 == m2;
            let _ = m1.ln_f(&0.3_f64);
            let after = m1 == m2;
            format!("{} {}", tok(&before), tok(&after))
        }
        "c09.sics_eq_t2" => {
            let a = ScaledInvChiSquared::new_unchecked(a.f(), a.f());
            let b = ScaledInvChiSquared::new_unchecked(a.v(), a.t2() + 1.0);
            tok(&(a == b))
        }
        "c09.skellam_stale" => {
            let (m1, m2, m1b) = (a.f(), a.f(), a.f());
            let x = a.i() as i32;
            let mut s = Skellam::new_unchecked(m1, m2);
            let _ = s.ln_f(&x);
            s.set_mu_1_unchecked(m1b);
            let got = s.ln_f(&x);
            let fresh = Skellam::new_unchecked(m1b, m2).ln_f(&x);
            format!("{} {}", tok(&got), tok(&fresh))
        }
        _ => return None,
    })
}
