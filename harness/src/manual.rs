//! hand-written operations (algorithmic code with hand models; scripted generators)
#![allow(unused)]
use crate::wire::*;
use rv::prelude::*;

pub fn dispatch(op: &str, kind: &str, a: &mut Args) -> Option<String> {
    None
}
