//! hand-written operations (algorithmic code with hand models; scripted generators)
#![allow(unused)]
use crate::wire::*;
use rv::prelude::*;

pub fn dispatch(op: &str, kind: &str, a: &mut Args) -> Option<String> {
    use rv::misc::LogSumExp;
    Some(match op {
        "logsumexp" => {
            let xs = a.list(|a| a.f());
            tok(&xs.iter().logsumexp())
        }
        _ => return None,
    })
}
