//! C16 — covariance kernels: ops that run the REAL `rv::process::gaussian::kernel` code on a kernel tree.
//!
//! Same line format as `lean/RvModel/Hand/DispatchC16.lean`:
//!   tree  ::= const <c> | rbf <l> | seard L<k> <l…> | ess <l> <p> | rq <s> <a> | matern <nu> <l> | white <s>
//!           | add <tree> <tree> | mul <tree> <tree>
//!   X     ::= <n> <d> <n·d coordinates, row-major>
//! ops: kernel.{cov, diag, cov_with_grad, parameters, n_parameters, reparameterize, consume_parameters, roundtrip}
//!
//! The composition types `AddKernel<A, B>` / `ProductKernel<A, B>` are static generics.  To run the real combinator
//! code on trees of ANY depth, `KE` is an enum over the seven leaf structs plus `Box<AddKernel<KE, KE>>` /
//! `Box<ProductKernel<KE, KE>>`; `impl Kernel for KE` only forwards to the wrapped value (no logic of its own), so every
//! leaf method and every combinator method executed is rv's.
#![allow(unused)]
use crate::wire::*;
use nalgebra::base::constraint::{SameNumberOfColumns, ShapeConstraint};
use nalgebra::base::storage::Storage;
use nalgebra::{DMatrix, DVector, Dim, Matrix};
use rv::process::gaussian::kernel::*;

#[derive(Clone, Debug, PartialEq)]
pub enum KE {
    Const(ConstantKernel),
    Rbf(RBFKernel),
    Seard(SEardKernel),
    Ess(ExpSineSquaredKernel),
    Rq(RationalQuadratic),
    Matern(MaternKernel),
    White(WhiteKernel),
    Add(Box<AddKernel<KE, KE>>),
    Mul(Box<ProductKernel<KE, KE>>),
}

macro_rules! fwd {
    ($s:expr, $k:ident => $e:expr) => {
        match $s {
            KE::Const($k) => $e,
            KE::Rbf($k) => $e,
            KE::Seard($k) => $e,
            KE::Ess($k) => $e,
            KE::Rq($k) => $e,
            KE::Matern($k) => $e,
            KE::White($k) => $e,
            KE::Add($k) => $e,
            KE::Mul($k) => $e,
        }
    };
}

impl Kernel for KE {
    fn n_parameters(&self) -> usize {
        fwd!(self, k => k.n_parameters())
    }
    fn covariance<R1, R2, C1, C2, S1, S2>(&self, x1: &Matrix<f64, R1, C1, S1>, x2: &Matrix<f64, R2, C2, S2>) -> DMatrix<f64>
    where
        R1: Dim,
        R2: Dim,
        C1: Dim,
        C2: Dim,
        S1: Storage<f64, R1, C1>,
        S2: Storage<f64, R2, C2>,
        ShapeConstraint: SameNumberOfColumns<C1, C2>,
    {
        fwd!(self, k => k.covariance(x1, x2))
    }
    fn is_stationary(&self) -> bool {
        fwd!(self, k => k.is_stationary())
    }
    fn diag<R, C, S>(&self, x: &Matrix<f64, R, C, S>) -> DVector<f64>
    where
        R: Dim,
        C: Dim,
        S: Storage<f64, R, C>,
    {
        fwd!(self, k => k.diag(x))
    }
    fn parameters(&self) -> DVector<f64> {
        fwd!(self, k => k.parameters())
    }
    fn reparameterize(&self, params: &[f64]) -> Result<Self, KernelError> {
        Ok(match self {
            KE::Const(k) => KE::Const(k.reparameterize(params)?),
            KE::Rbf(k) => KE::Rbf(k.reparameterize(params)?),
            KE::Seard(k) => KE::Seard(k.reparameterize(params)?),
            KE::Ess(k) => KE::Ess(k.reparameterize(params)?),
            KE::Rq(k) => KE::Rq(k.reparameterize(params)?),
            KE::Matern(k) => KE::Matern(k.reparameterize(params)?),
            KE::White(k) => KE::White(k.reparameterize(params)?),
            KE::Add(k) => KE::Add(Box::new(k.reparameterize(params)?)),
            KE::Mul(k) => KE::Mul(Box::new(k.reparameterize(params)?)),
        })
    }
    // `consume_parameters` is NOT forwarded: it is the trait's default method (mod.rs:77-93), which no rv kernel
    // overrides, so the default body running on `KE` is the code under test.
    fn covariance_with_gradient<R, C, S>(&self, x: &Matrix<f64, R, C, S>) -> Result<(DMatrix<f64>, CovGrad), CovGradError>
    where
        R: Dim,
        C: Dim,
        S: Storage<f64, R, C>,
    {
        fwd!(self, k => k.covariance_with_gradient(x))
    }
}

fn rd_tree(a: &mut Args) -> KE {
    let t = a.tag();
    match t.as_str() {
        "const" => KE::Const(ConstantKernel::new_unchecked(a.f())),
        "rbf" => KE::Rbf(RBFKernel::new_unchecked(a.f())),
        "seard" => {
            let ls = a.list(|a| a.f());
            KE::Seard(SEardKernel::new_unchecked(DVector::from_vec(ls)))
        }
        "ess" => {
            let (l, p) = (a.f(), a.f());
            KE::Ess(ExpSineSquaredKernel::new_unchecked(l, p))
        }
        "rq" => {
            let (s, al) = (a.f(), a.f());
            KE::Rq(RationalQuadratic::new_unchecked(s, al))
        }
        "matern" => {
            let (nu, l) = (a.f(), a.f());
            KE::Matern(MaternKernel::new_unchecked(nu, l))
        }
        "white" => KE::White(WhiteKernel::new_unchecked(a.f())),
        "add" => {
            let x = rd_tree(a);
            let y = rd_tree(a);
            KE::Add(Box::new(AddKernel::new(x, y)))
        }
        "mul" => {
            let x = rd_tree(a);
            let y = rd_tree(a);
            KE::Mul(Box::new(ProductKernel::new(x, y)))
        }
        t => panic!("wire: bad kernel token {t}"),
    }
}

/// `<n> <d> <row-major coordinates>`
fn rd_pts(a: &mut Args) -> DMatrix<f64> {
    let n = a.n() as usize;
    let d = a.n() as usize;
    let v: Vec<f64> = (0..n * d).map(|_| a.f()).collect();
    DMatrix::from_row_slice(n, d, &v)
}

/// row-major `L<n·m> …`
fn wr_mat(m: &DMatrix<f64>) -> String {
    let mut v = Vec::with_capacity(m.nrows() * m.ncols());
    for i in 0..m.nrows() {
        for j in 0..m.ncols() {
            v.push(m[(i, j)]);
        }
    }
    tok(&v)
}

fn wr_vec(v: &DVector<f64>) -> String {
    tok(&v.iter().copied().collect::<Vec<f64>>())
}

fn wr_kerr(e: &KernelError) -> String {
    match e {
        KernelError::MissingParameters(n) => format!("E:MissingParameters {}", n),
        KernelError::ExtraneousParameters(n) => format!("E:ExtraneousParameters {}", n),
        e => err_tok(e),
    }
}

pub fn dispatch(op: &str, _kind: &str, a: &mut Args) -> Option<String> {
    Some(match op {
        "kernel.cov" => {
            let k = rd_tree(a);
            let x = rd_pts(a);
            let y = rd_pts(a);
            wr_mat(&k.covariance(&x, &y))
        }
        "kernel.diag" => {
            let k = rd_tree(a);
            let x = rd_pts(a);
            wr_vec(&k.diag(&x))
        }
        "kernel.cov_with_grad" => {
            let k = rd_tree(a);
            let x = rd_pts(a);
            let p = k.n_parameters();
            match k.covariance_with_gradient(&x) {
                Ok((c, g)) => {
                    // `CovGrad` exposes its slices through `Index<usize>` only; the true number of slices is read from
                    // its serde rendering (`{"slices": [...]}`), falling back to `n_parameters()`.
                    let ns = serde_json::to_value(&g)
                        .ok()
                        .and_then(|v| v.get("slices").and_then(|s| s.as_array().map(|s| s.len())))
                        .unwrap_or(p);
                    let mut out = vec![wr_mat(&c), format!("L{}", ns)];
                    for i in 0..ns {
                        out.push(wr_mat(&g[i]));
                    }
                    out.join(" ")
                }
                Err(e) => err_tok(&e),
            }
        }
        "kernel.parameters" => {
            let k = rd_tree(a);
            wr_vec(&k.parameters())
        }
        "kernel.n_parameters" => {
            let k = rd_tree(a);
            tok(&k.n_parameters())
        }
        "kernel.reparameterize" => {
            let k = rd_tree(a);
            let ps = a.list(|a| a.f());
            match k.reparameterize(&ps) {
                Ok(k2) => wr_vec(&k2.parameters()),
                Err(e) => wr_kerr(&e),
            }
        }
        "kernel.consume_parameters" => {
            let k = rd_tree(a);
            let ps = a.list(|a| a.f());
            match k.consume_parameters(ps) {
                Ok((k2, rest)) => format!("{} {}", wr_vec(&k2.parameters()), tok(&rest.collect::<Vec<f64>>())),
                Err(e) => wr_kerr(&e),
            }
        }
        // k' = k.reparameterize(&k.parameters()) through the real code; its parameters and its covariance(X, X)
        "kernel.roundtrip" => {
            let k = rd_tree(a);
            let x = rd_pts(a);
            let ps: Vec<f64> = k.parameters().iter().copied().collect();
            match k.reparameterize(&ps) {
                Ok(k2) => format!("{} {}", wr_vec(&k2.parameters()), wr_mat(&k2.covariance(&x, &x))),
                Err(e) => wr_kerr(&e),
            }
        }
        _ => return None,
    })
}
