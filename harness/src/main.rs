//! rvharness: evaluates one operation of the real rv crate per input line (see lean/RvModel/Wire.lean).
mod gen_dispatch;
mod manual;
mod wire;
use std::io::{BufRead, Write};
use std::panic::{catch_unwind, AssertUnwindSafe};
use wire::Args;

fn main() {
    std::panic::set_hook(Box::new(|_| {}));
    let stdin = std::io::stdin();
    let stdout = std::io::stdout();
    let mut out = std::io::BufWriter::new(stdout.lock());
    for line in stdin.lock().lines() {
        let line = line.unwrap();
        let mut toks: Vec<String> = line.split_whitespace().map(|s| s.to_string()).collect();
        if toks.len() < 2 {
            writeln!(out, "BAD").unwrap();
            continue;
        }
        let op = toks.remove(0);
        let kind = toks.remove(0);
        let res = catch_unwind(AssertUnwindSafe(|| {
            let mut a = Args::new(toks.clone());
            if let Some(r) = manual::dispatch(&op, &kind, &mut a) {
                return r;
            }
            let mut a = Args::new(toks.clone());
            match gen_dispatch::dispatch(&op, &kind, &mut a) {
                Some(r) => r,
                None => "NOOP".to_string(),
            }
        }));
        match res {
            Ok(r) => writeln!(out, "{}", r).unwrap(),
            Err(_) => writeln!(out, "PANIC").unwrap(),
        }
    }
}
