//! rvharness: evaluates one operation of the real rv crate per input line (see lean/RvModel/Wire.lean).
mod gen_dispatch;
mod manual;
mod manual_c13b;
mod manual_c19;
mod manual_c11;
mod manual_c16;
mod manual_c20;
mod manual_c15;
mod manual_c17;
mod manual_c04;
mod manual_c05s;
mod manual_c18;
mod wire;
use std::io::{BufRead, Write};
use std::panic::{catch_unwind, AssertUnwindSafe};
use wire::Args;

/// contributed manual op tables: add `mod manual_<tag>;` above and `manual_<tag>::dispatch` here
pub static CONTRIB: &[fn(&str, &str, &mut Args) -> Option<String>] = &[manual_c13b::dispatch, manual_c19::dispatch, manual_c11::dispatch, manual_c16::dispatch, manual_c20::dispatch, manual_c15::dispatch, manual_c17::dispatch, manual_c04::dispatch, manual_c05s::dispatch, manual_c18::dispatch];

fn main() {
    std::panic::set_hook(Box::new(|_| {}));
    let stdin = std::io::stdin();
    let stdout = std::io::stdout();
    let mut out = std::io::BufWriter::new(stdout.lock());
    let hang_ms: u64 = std::env::var("RVH_HANG_MS").ok().and_then(|v| v.parse().ok()).unwrap_or(10000);
    let max_hangs: u64 = std::env::var("RVH_MAX_HANGS").ok().and_then(|v| v.parse().ok()).unwrap_or(u64::MAX);
    let mut hangs: u64 = 0;
    for line in stdin.lock().lines() {
        let line = line.unwrap();
        let mut toks: Vec<String> = line.split_whitespace().map(|s| s.to_string()).collect();
        if toks.len() < 2 {
            writeln!(out, "BAD").unwrap();
            continue;
        }
        let op = toks.remove(0);
        let kind = toks.remove(0);
        let (tx, rx) = std::sync::mpsc::channel();
        let opc = op.clone();
        let kindc = kind.clone();
        let toksc = toks.clone();
        // each case runs in its own thread so that a non-terminating call is reported (HANG) instead of blocking the run
        let _ = std::thread::Builder::new().stack_size(64 << 20).spawn(move || {
            let res = catch_unwind(AssertUnwindSafe(|| {
                let mut a = Args::new(toksc.clone());
                if let Some(r) = manual::dispatch(&opc, &kindc, &mut a) {
                    return r;
                }
                let mut a = Args::new(toksc.clone());
                match gen_dispatch::dispatch(&opc, &kindc, &mut a) {
                    Some(r) => r,
                    None => "NOOP".to_string(),
                }
            }));
            let _ = tx.send(match res {
                Ok(r) => r,
                Err(_) => "PANIC".to_string(),
            });
        });
        let limit = std::time::Duration::from_millis(hang_ms);
        match rx.recv_timeout(limit) {
            Ok(r) => writeln!(out, "{}", r).unwrap(),
            Err(_) => {
                writeln!(out, "HANG").unwrap();
                // the hung thread keeps spinning: after a few of them give the process up (exit code 3);
                // the caller restarts the harness on the remaining lines
                hangs += 1;
                if hangs >= max_hangs {
                    out.flush().unwrap();
                    std::process::exit(3);
                }
            }
        }
    }
}
