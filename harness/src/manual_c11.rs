//! C11 — implementation-side ops for `rv::dist::Mixture<Fx>` (hand model: lean/RvModel/Hand/Mixture.lean,
//! driver entries with the SAME names: lean/RvModel/Hand/DispatchC11.lean, formats documented there and in
//! props/C11_notes.md).  Query ops build the mixture with `new_unchecked` so that queries are decoupled from
//! validation; structural ops use Gaussian components as carriers of two numbers (mu, sigma).
#![allow(unused)]
use crate::wire::*;
use rv::dist::{Bernoulli, Gaussian, Mixture, Poisson};
use rv::traits::*;

fn weights(a: &mut Args) -> Vec<f64> {
    a.list(|a| a.f())
}
fn gausses(a: &mut Args) -> Vec<Gaussian> {
    a.list(|a| {
        let mu = a.f();
        let sigma = a.f();
        Gaussian::new_unchecked(mu, sigma)
    })
}
fn poissons(a: &mut Args) -> Vec<Poisson> {
    a.list(|a| Poisson::new_unchecked(a.f()))
}
fn bernoullis(a: &mut Args) -> Vec<Bernoulli> {
    a.list(|a| Bernoulli::new_unchecked(a.f()))
}
/// k tagged components (i, 1.0)
fn std_tags(k: usize) -> Vec<Gaussian> {
    (0..k).map(|i| Gaussian::new_unchecked(i as f64, 1.0)).collect()
}
fn wr_tags(cs: &[Gaussian]) -> String {
    let mut v = vec![format!("L{}", cs.len())];
    for c in cs {
        v.push(tok(&c.mu()));
        v.push(tok(&c.sigma()));
    }
    v.join(" ")
}
fn wr_pairs(ps: &[(f64, Gaussian)]) -> String {
    let mut v = vec![format!("L{}", ps.len())];
    for (w, c) in ps {
        v.push(tok(w));
        v.push(tok(&c.mu()));
        v.push(tok(&c.sigma()));
    }
    v.join(" ")
}
fn wr_mix_k(m: &Mixture<Gaussian>) -> String {
    format!("{} {}", tok(m.weights()), m.components().len())
}

/// the second generator word: ziggurat layer 0x64, u = 0 ⇒ standard normal variate 0.0
const ZERO_NORMAL_WORD: u64 = 0x8000_0000_0000_0064;

pub fn dispatch(op: &str, _kind: &str, a: &mut Args) -> Option<String> {
    if !op.starts_with("mix.") {
        return None;
    }
    Some(match op {
        // ---------------------------------------------------------------- Gaussian components, x : f64
        "mix.gauss.ln_f" | "mix.gauss.f" | "mix.gauss.cdf" | "mix.gauss.pdf" | "mix.gauss.ln_pdf"
        | "mix.gauss.supports" => {
            let m = Mixture::new_unchecked(weights(a), gausses(a));
            let x: f64 = a.f();
            match op {
                "mix.gauss.ln_f" => tok(&m.ln_f(&x)),
                "mix.gauss.f" => tok(&m.f(&x)),
                "mix.gauss.cdf" => tok(&m.cdf(&x)),
                "mix.gauss.pdf" => tok(&m.pdf(&x)),
                "mix.gauss.ln_pdf" => tok(&m.ln_pdf(&x)),
                _ => tok(&m.supports(&x)),
            }
        }
        "mix.gauss.mean" => {
            let m = Mixture::new_unchecked(weights(a), gausses(a));
            let r: Option<f64> = m.mean();
            tok(&r)
        }
        "mix.gauss.variance" => {
            let m = Mixture::new_unchecked(weights(a), gausses(a));
            let r: Option<f64> = m.variance();
            tok(&r)
        }
        // ---------------------------------------------------------------- Poisson components, x : u32
        "mix.pois.ln_f" | "mix.pois.f" | "mix.pois.cdf" | "mix.pois.pmf" | "mix.pois.ln_pmf" | "mix.pois.supports" => {
            let m = Mixture::new_unchecked(weights(a), poissons(a));
            let x: u32 = a.n() as u32;
            match op {
                "mix.pois.ln_f" => tok(&m.ln_f(&x)),
                "mix.pois.f" => tok(&m.f(&x)),
                "mix.pois.cdf" => tok(&m.cdf(&x)),
                "mix.pois.pmf" => tok(&m.pmf(&x)),
                "mix.pois.ln_pmf" => tok(&m.ln_pmf(&x)),
                _ => tok(&m.supports(&x)),
            }
        }
        "mix.pois.mean" => {
            let m = Mixture::new_unchecked(weights(a), poissons(a));
            let r: Option<f64> = m.mean();
            tok(&r)
        }
        "mix.pois.variance" => {
            let m = Mixture::new_unchecked(weights(a), poissons(a));
            let r: Option<f64> = m.variance();
            tok(&r)
        }
        // ---------------------------------------------------------------- Bernoulli components, x : bool
        "mix.bern.ln_f" | "mix.bern.f" | "mix.bern.cdf" | "mix.bern.pmf" | "mix.bern.ln_pmf" | "mix.bern.supports" => {
            let m = Mixture::new_unchecked(weights(a), bernoullis(a));
            let x: bool = a.b();
            match op {
                "mix.bern.ln_f" => tok(&m.ln_f(&x)),
                "mix.bern.f" => tok(&m.f(&x)),
                "mix.bern.cdf" => tok(&m.cdf(&x)),
                "mix.bern.pmf" => tok(&m.pmf(&x)),
                "mix.bern.ln_pmf" => tok(&m.ln_pmf(&x)),
                _ => tok(&m.supports(&x)),
            }
        }
        "mix.bern.mean" => {
            let m = Mixture::new_unchecked(weights(a), bernoullis(a));
            let r: Option<f64> = m.mean();
            tok(&r)
        }
        "mix.bern.variance" => {
            let m = Mixture::new_unchecked(weights(a), bernoullis(a));
            let r: Option<f64> = m.variance();
            tok(&r)
        }
        // ---------------------------------------------------------------- construction / mutation / conversion
        "mix.new" => {
            let w = weights(a);
            let k = a.n() as usize;
            match Mixture::new(w, std_tags(k)) {
                Ok(m) => wr_mix_k(&m),
                Err(e) => err_tok(&e),
            }
        }
        "mix.uniform" => {
            let k = a.n() as usize;
            match Mixture::uniform(std_tags(k)) {
                Ok(m) => wr_mix_k(&m),
                Err(e) => err_tok(&e),
            }
        }
        "mix.set_weights" => {
            let w0 = weights(a);
            let k = a.n() as usize;
            let w1 = weights(a);
            let mut m = Mixture::new_unchecked(w0, std_tags(k));
            // touch the ln_weights cache first so that a stale cache would be visible to later queries
            let _ = m.ln_weights().len();
            match m.set_weights(w1) {
                Ok(()) => format!("U {}", tok(m.weights())),
                Err(e) => format!("{} {}", err_tok(&e), tok(m.weights())),
            }
        }
        "mix.set_components" => {
            let w = weights(a);
            let k = a.n() as usize;
            let c = gausses(a);
            let mut m = Mixture::new_unchecked(w, std_tags(k));
            match m.set_components(c) {
                Ok(()) => format!("U {} {}", tok(m.weights()), wr_tags(m.components())),
                Err(e) => format!("{} {} {}", err_tok(&e), tok(m.weights()), wr_tags(m.components())),
            }
        }
        "mix.combine" => {
            let ms: Vec<Mixture<Gaussian>> = a.list(|a| {
                let w = weights(a);
                let c = gausses(a);
                Mixture::new_unchecked(w, c)
            });
            let m = Mixture::combine(ms);
            format!("{} {}", tok(m.weights()), wr_tags(m.components()))
        }
        "mix.pairs_roundtrip" => {
            let ps: Vec<(f64, Gaussian)> = a.list(|a| {
                let w = a.f();
                let mu = a.f();
                let sigma = a.f();
                (w, Gaussian::new_unchecked(mu, sigma))
            });
            match Mixture::try_from(ps) {
                Ok(m) => {
                    let back: Vec<(f64, Gaussian)> = m.into();
                    wr_pairs(&back)
                }
                Err(e) => err_tok(&e),
            }
        }
        "mix.to_pairs" => {
            let m = Mixture::new_unchecked(weights(a), gausses(a));
            let back: Vec<(f64, Gaussian)> = m.into();
            wr_pairs(&back)
        }
        // ---------------------------------------------------------------- draws
        "mix.draw_index" => {
            let w = weights(a);
            let word = a.n();
            let mut rng = Script::new(vec![word]);
            // the expression of Mixture::draw, mixture.rs:419
            let k: usize = rv::misc::pflips(&w, 1, &mut rng)[0];
            tok(&k)
        }
        "mix.gauss.draw" => {
            let m = Mixture::new_unchecked(weights(a), gausses(a));
            let word = a.n();
            let mut rng = Script::new(vec![word, ZERO_NORMAL_WORD]);
            let x: f64 = m.draw(&mut rng);
            tok(&x)
        }
        // the ln_weights cache after a weight mutation: ln_f before / after set_weights vs a fresh mixture
        "mix.gauss.ln_f_after_set_weights" => {
            let w0 = weights(a);
            let g = gausses(a);
            let w1 = weights(a);
            let x = a.f();
            let mut m = Mixture::new_unchecked(w0, g.clone());
            let _ = m.ln_f(&x);
            let st = match m.set_weights(w1.clone()) {
                Ok(()) => "U".to_string(),
                Err(e) => err_tok(&e),
            };
            let fresh = Mixture::new_unchecked(m.weights().clone(), g);
            format!("{} {} {}", st, tok(&m.ln_f(&x)), tok(&fresh.ln_f(&x)))
        }
        // implementation-only probe (no model): QuadBounds for Mixture<Poisson>, mixture.rs:917-945
        "mix.pois.quad_bounds" => {
            let m = Mixture::new_unchecked(weights(a), poissons(a));
            let (l, r) = m.quad_bounds();
            format!("{} {}", tok(&l), tok(&r))
        }
        _ => return None,
    })
}
