//! C11 — implementation-side ops for `rv::dist::Mixture<Fx>` (hand model: lean/RvModel/Hand/Mixture.lean,
//! driver entries with the SAME names: lean/RvModel/Hand/DispatchC11.lean, formats documented there and in
//! props/C11_notes.md).  Query ops build the mixture with `new_unchecked` so that queries are decoupled from
//! validation; structural ops use Gaussian components as carriers of two numbers (mu, sigma).
#![allow(unused)]
use crate::wire::*;
use rv::dist::{
    Bernoulli, Categorical, Exponential, Gaussian, InvChiSquared, InvGamma, Laplace, Mixture, Pareto, Poisson, ScaledInvChiSquared,
    StudentsT, Uniform,
};
use rv::traits::*;

fn weights(a: &mut Args) -> Vec<f64> {
    a.list(|a| a.f())
}
fn gausses(a: &mut Args) -> Vec<Gaussian> {
    a.list(|a| {
        let mu = a.f();
        let sigma = a.f();
        Gaussian::new_unchecked(mu, sigma)
    })
}
fn poissons(a: &mut Args) -> Vec<Poisson> {
    a.list(|a| Poisson::new_unchecked(a.f()))
}
fn bernoullis(a: &mut Args) -> Vec<Bernoulli> {
    a.list(|a| Bernoulli::new_unchecked(a.f()))
}
fn paretos(a: &mut Args) -> Vec<Pareto> {
    a.list(|a| {
        let shape = a.f();
        let scale = a.f();
        Pareto::new_unchecked(shape, scale)
    })
}
fn uniforms(a: &mut Args) -> Vec<Uniform> {
    a.list(|a| {
        let lo = a.f();
        let hi = a.f();
        Uniform::new_unchecked(lo, hi)
    })
}
fn categoricals(a: &mut Args) -> Vec<Categorical> {
    a.list(|a| Categorical::new_unchecked(a.list(|a| a.f())))
}
fn opt_list(v: &[Option<f64>]) -> String {
    let mut out = vec![format!("L{}", v.len())];
    out.extend(v.iter().map(|x| tok(x)));
    out.join(" ")
}
/// f32 moments of a mixture and of its components (widened exactly to f64)
fn f32_moments<Fx>(w: Vec<f64>, cs: Vec<Fx>) -> String
where
    Fx: Mean<f32> + Variance<f32> + Clone,
{
    let cm: Vec<Option<f64>> = cs.iter().map(|c| Mean::<f32>::mean(c).map(|m| m as f64)).collect();
    let cv: Vec<Option<f64>> = cs.iter().map(|c| Variance::<f32>::variance(c).map(|v| v as f64)).collect();
    let m = Mixture::new_unchecked(w, cs);
    let mean: Option<f32> = m.mean();
    let var: Option<f32> = m.variance();
    format!("{} {} {} {}", tok(&mean), tok(&var), opt_list(&cm), opt_list(&cv))
}

/// f64 moments of a mixture and of its components
fn f64_moments<Fx>(w: Vec<f64>, cs: Vec<Fx>) -> String
where
    Fx: Mean<f64> + Variance<f64> + Clone,
{
    let cm: Vec<Option<f64>> = cs.iter().map(|c| Mean::<f64>::mean(c)).collect();
    let cv: Vec<Option<f64>> = cs.iter().map(|c| Variance::<f64>::variance(c)).collect();
    let m = Mixture::new_unchecked(w, cs);
    let mean: Option<f64> = m.mean();
    let var: Option<f64> = m.variance();
    format!("{} {} {} {}", tok(&mean), tok(&var), opt_list(&cm), opt_list(&cv))
}

/// k tagged components (i, 1.0)
fn std_tags(k: usize) -> Vec<Gaussian> {
    (0..k).map(|i| Gaussian::new_unchecked(i as f64, 1.0)).collect()
}
fn wr_tags(cs: &[Gaussian]) -> String {
    let mut v = vec![format!("L{}", cs.len())];
    for c in cs {
        v.push(tok(&c.mu()));
        v.push(tok(&c.sigma()));
    }
    v.join(" ")
}
fn wr_pairs(ps: &[(f64, Gaussian)]) -> String {
    let mut v = vec![format!("L{}", ps.len())];
    for (w, c) in ps {
        v.push(tok(w));
        v.push(tok(&c.mu()));
        v.push(tok(&c.sigma()));
    }
    v.join(" ")
}
fn wr_mix_k(m: &Mixture<Gaussian>) -> String {
    format!("{} {}", tok(m.weights()), m.components().len())
}

/// the second generator word: ziggurat layer 0x64, u = 0 ⇒ standard normal variate 0.0
const ZERO_NORMAL_WORD: u64 = 0x8000_0000_0000_0064;

pub fn dispatch(op: &str, _kind: &str, a: &mut Args) -> Option<String> {
    if !op.starts_with("mix.") {
        return None;
    }
    Some(match op {
        // ---------------------------------------------------------------- Gaussian components, x : f64
        "mix.gauss.ln_f" | "mix.gauss.f" | "mix.gauss.cdf" | "mix.gauss.pdf" | "mix.gauss.ln_pdf"
        | "mix.gauss.supports" => {
            let m = Mixture::new_unchecked(weights(a), gausses(a));
            let x: f64 = a.f();
            match op {
                "mix.gauss.ln_f" => tok(&m.ln_f(&x)),
                "mix.gauss.f" => tok(&m.f(&x)),
                "mix.gauss.cdf" => tok(&m.cdf(&x)),
                "mix.gauss.pdf" => tok(&m.pdf(&x)),
                "mix.gauss.ln_pdf" => tok(&m.ln_pdf(&x)),
                _ => tok(&m.supports(&x)),
            }
        }
        "mix.gauss.mean" => {
            let m = Mixture::new_unchecked(weights(a), gausses(a));
            let r: Option<f64> = m.mean();
            tok(&r)
        }
        "mix.gauss.variance" => {
            let m = Mixture::new_unchecked(weights(a), gausses(a));
            let r: Option<f64> = m.variance();
            tok(&r)
        }
        // ---------------------------------------------------------------- Poisson components, x : u32
        "mix.pois.ln_f" | "mix.pois.f" | "mix.pois.cdf" | "mix.pois.pmf" | "mix.pois.ln_pmf" | "mix.pois.supports" => {
            let m = Mixture::new_unchecked(weights(a), poissons(a));
            let x: u32 = a.n() as u32;
            match op {
                "mix.pois.ln_f" => tok(&m.ln_f(&x)),
                "mix.pois.f" => tok(&m.f(&x)),
                "mix.pois.cdf" => tok(&m.cdf(&x)),
                "mix.pois.pmf" => tok(&m.pmf(&x)),
                "mix.pois.ln_pmf" => tok(&m.ln_pmf(&x)),
                _ => tok(&m.supports(&x)),
            }
        }
        "mix.pois.mean" => {
            let m = Mixture::new_unchecked(weights(a), poissons(a));
            let r: Option<f64> = m.mean();
            tok(&r)
        }
        "mix.pois.variance" => {
            let m = Mixture::new_unchecked(weights(a), poissons(a));
            let r: Option<f64> = m.variance();
            tok(&r)
        }
        // ---------------------------------------------------------------- Bernoulli components, x : bool
        "mix.bern.ln_f" | "mix.bern.f" | "mix.bern.cdf" | "mix.bern.pmf" | "mix.bern.ln_pmf" | "mix.bern.supports" => {
            let m = Mixture::new_unchecked(weights(a), bernoullis(a));
            let x: bool = a.b();
            match op {
                "mix.bern.ln_f" => tok(&m.ln_f(&x)),
                "mix.bern.f" => tok(&m.f(&x)),
                "mix.bern.cdf" => tok(&m.cdf(&x)),
                "mix.bern.pmf" => tok(&m.pmf(&x)),
                "mix.bern.ln_pmf" => tok(&m.ln_pmf(&x)),
                _ => tok(&m.supports(&x)),
            }
        }
        "mix.bern.mean" => {
            let m = Mixture::new_unchecked(weights(a), bernoullis(a));
            let r: Option<f64> = m.mean();
            tok(&r)
        }
        "mix.bern.variance" => {
            let m = Mixture::new_unchecked(weights(a), bernoullis(a));
            let r: Option<f64> = m.variance();
            tok(&r)
        }
        // ---------------------------------------------------------------- components with parameter-dependent supports
        "mix.pareto.ln_f" | "mix.pareto.f" | "mix.pareto.cdf" | "mix.pareto.pdf" | "mix.pareto.ln_pdf"
        | "mix.pareto.supports" | "mix.unif.ln_f" | "mix.unif.f" | "mix.unif.cdf" | "mix.unif.pdf" | "mix.unif.ln_pdf"
        | "mix.unif.supports" => {
            let w = weights(a);
            let q = &op[op.rfind('.').unwrap() + 1..];
            if op.starts_with("mix.pareto.") {
                let m = Mixture::new_unchecked(w, paretos(a));
                let x: f64 = a.f();
                match q {
                    "ln_f" => tok(&m.ln_f(&x)),
                    "f" => tok(&m.f(&x)),
                    "cdf" => tok(&m.cdf(&x)),
                    "pdf" => tok(&m.pdf(&x)),
                    "ln_pdf" => tok(&m.ln_pdf(&x)),
                    _ => tok(&m.supports(&x)),
                }
            } else {
                let m = Mixture::new_unchecked(w, uniforms(a));
                let x: f64 = a.f();
                match q {
                    "ln_f" => tok(&m.ln_f(&x)),
                    "f" => tok(&m.f(&x)),
                    "cdf" => tok(&m.cdf(&x)),
                    "pdf" => tok(&m.pdf(&x)),
                    "ln_pdf" => tok(&m.ln_pdf(&x)),
                    _ => tok(&m.supports(&x)),
                }
            }
        }
        "mix.pareto.mean" | "mix.pareto.variance" | "mix.unif.mean" | "mix.unif.variance" => {
            let w = weights(a);
            let (mean, var): (Option<f64>, Option<f64>) = if op.starts_with("mix.pareto.") {
                let m = Mixture::new_unchecked(w, paretos(a));
                (m.mean(), m.variance())
            } else {
                let m = Mixture::new_unchecked(w, uniforms(a));
                (m.mean(), m.variance())
            };
            if op.ends_with(".mean") { tok(&mean) } else { tok(&var) }
        }
        "mix.cat.ln_f" | "mix.cat.f" | "mix.cat.cdf" | "mix.cat.pmf" | "mix.cat.ln_pmf" | "mix.cat.supports" => {
            let m = Mixture::new_unchecked(weights(a), categoricals(a));
            let x: usize = a.n() as usize;
            match op {
                "mix.cat.ln_f" => tok(&m.ln_f(&x)),
                "mix.cat.f" => tok(&m.f(&x)),
                "mix.cat.cdf" => tok(&m.cdf(&x)),
                "mix.cat.pmf" => tok(&m.pmf(&x)),
                "mix.cat.ln_pmf" => tok(&m.ln_pmf(&x)),
                _ => tok(&m.supports(&x)),
            }
        }
        // Categorical has no Mean<f64> / Variance<f64>: the model answers N
        "mix.cat.mean" | "mix.cat.variance" => {
            let _ = (weights(a), categoricals(a));
            "N".to_string()
        }
        // ---------------------------------------------------------------- quadrature entropy of Mixture<Gaussian>
        "mix.gauss.quad_bounds" => {
            let m = Mixture::new_unchecked(weights(a), gausses(a));
            let (l, r) = m.quad_bounds();
            format!("{} {}", tok(&l), tok(&r))
        }
        "mix.gauss.entropy" => {
            let m = Mixture::new_unchecked(weights(a), gausses(a));
            tok(&m.entropy())
        }
        // ---------------------------------------------------------------- entropies of discrete mixtures
        "mix.pois.entropy" => {
            let m = Mixture::new_unchecked(weights(a), poissons(a));
            tok(&m.entropy())
        }
        "mix.bern.entropy" => {
            let m = Mixture::new_unchecked(weights(a), bernoullis(a));
            tok(&m.entropy())
        }
        "mix.cat.entropy" => {
            let m = Mixture::new_unchecked(weights(a), categoricals(a));
            tok(&m.entropy())
        }
        // ---------------------------------------------------------------- f64 moments of families whose moments may not exist
        //   mix.f64.moments - <fam> <W> <params>     fam = studentst (v)* | invgamma (shape scale)* | invchi2 (v)* |
        //   sinvchi2 (v t2)* | pareto (shape scale)*     answer: <opt mean> <opt var> L<k> (opt cmean) L<k> (opt cvar)
        "mix.f64.moments" => {
            let fam = a.tag();
            let w = weights(a);
            match fam.as_str() {
                "studentst" => f64_moments(w, a.list(|a| StudentsT::new_unchecked(a.f()))),
                "invgamma" => f64_moments(w, a.list(|a| { let sh = a.f(); let sc = a.f(); InvGamma::new_unchecked(sh, sc) })),
                "invchi2" => f64_moments(w, a.list(|a| InvChiSquared::new_unchecked(a.f()))),
                "sinvchi2" => f64_moments(w, a.list(|a| { let v = a.f(); let t2 = a.f(); ScaledInvChiSquared::new_unchecked(v, t2) })),
                "pareto" => f64_moments(w, paretos(a)),
                _ => "BAD:fam".to_string(),
            }
        }
        // ---------------------------------------------------------------- f32 moments: <fam> <W> <params>
        //   fam = laplace (mu b)* | unif (a b)* | expon (rate)*      answer: <opt mean32> <opt var32> L<k> cmean L<k> cvar
        "mix.f32.moments" => {
            let fam = a.tag();
            let w = weights(a);
            match fam.as_str() {
                "laplace" => f32_moments(w, a.list(|a| { let mu = a.f(); let b = a.f(); Laplace::new_unchecked(mu, b) })),
                "unif" => f32_moments(w, uniforms(a)),
                "expon" => f32_moments(w, a.list(|a| Exponential::new_unchecked(a.f()))),
                _ => "BAD:fam".to_string(),
            }
        }
        // ---------------------------------------------------------------- histories (cache / state machine)
        // mix.hist - <W> <G> <n> step*n     every answer item is separated by " | "
        //   q <x>   ↦ "<live.ln_f(x)> <fresh.ln_f(x)>"      lw ↦ "<live.ln_weights()> <fresh.ln_weights()>"
        //   f <x>   ↦ "<live.f(x)> <fresh.f(x)>"            eq ↦ "<live == fresh> T"
        //   ws <W>  checked set_weights      ↦ "U" | "E:<Variant>"      wu <W> set_weights_unchecked (no answer)
        //   cs <G>  checked set_components   ↦ "U" | "E:<Variant>"      cu <G> set_components_unchecked (no answer)
        //   clone   live = live.clone() (no answer)
        //   fresh = Mixture::new_unchecked(parameters the live mixture must have after the steps so far)
        "mix.hist" => {
            let mut w = weights(a);
            let mut g = gausses(a);
            let mut live = Mixture::new_unchecked(w.clone(), g.clone());
            let n = a.n();
            let mut out: Vec<String> = vec![];
            for _ in 0..n {
                let t = a.tag();
                match t.as_str() {
                    "q" => {
                        let x = a.f();
                        let fresh = Mixture::new_unchecked(w.clone(), g.clone());
                        out.push(format!("{} {}", tok(&live.ln_f(&x)), tok(&fresh.ln_f(&x))));
                    }
                    "f" => {
                        let x = a.f();
                        let fresh = Mixture::new_unchecked(w.clone(), g.clone());
                        out.push(format!("{} {}", tok(&live.f(&x)), tok(&fresh.f(&x))));
                    }
                    "lw" => {
                        let fresh = Mixture::new_unchecked(w.clone(), g.clone());
                        out.push(format!("{} {}", tok(&live.ln_weights().to_vec()), tok(&fresh.ln_weights().to_vec())));
                    }
                    "eq" => {
                        let fresh = Mixture::new_unchecked(w.clone(), g.clone());
                        out.push(format!("{} T", tok(&(live == fresh))));
                    }
                    "ws" => {
                        let w1 = weights(a);
                        match live.set_weights(w1.clone()) {
                            Ok(()) => {
                                w = w1;
                                out.push("U".to_string());
                            }
                            Err(e) => out.push(err_tok(&e)),
                        }
                    }
                    "wu" => {
                        w = weights(a);
                        live.set_weights_unchecked(w.clone());
                    }
                    "cs" => {
                        let g1 = gausses(a);
                        match live.set_components(g1.clone()) {
                            Ok(()) => {
                                g = g1;
                                out.push("U".to_string());
                            }
                            Err(e) => out.push(err_tok(&e)),
                        }
                    }
                    "cu" => {
                        g = gausses(a);
                        live.set_components_unchecked(g.clone());
                    }
                    "clone" => {
                        live = live.clone();
                    }
                    _ => return Some("BAD:step".to_string()),
                }
            }
            out.join(" | ")
        }
        // ---------------------------------------------------------------- construction / mutation / conversion
        "mix.new" => {
            let w = weights(a);
            let k = a.n() as usize;
            match Mixture::new(w, std_tags(k)) {
                Ok(m) => wr_mix_k(&m),
                Err(e) => err_tok(&e),
            }
        }
        "mix.uniform" => {
            let k = a.n() as usize;
            match Mixture::uniform(std_tags(k)) {
                Ok(m) => wr_mix_k(&m),
                Err(e) => err_tok(&e),
            }
        }
        "mix.set_weights" => {
            let w0 = weights(a);
            let k = a.n() as usize;
            let w1 = weights(a);
            let mut m = Mixture::new_unchecked(w0, std_tags(k));
            // touch the ln_weights cache first so that a stale cache would be visible to later queries
            let _ = m.ln_weights().len();
            match m.set_weights(w1) {
                Ok(()) => format!("U {}", tok(m.weights())),
                Err(e) => format!("{} {}", err_tok(&e), tok(m.weights())),
            }
        }
        "mix.set_components" => {
            let w = weights(a);
            let k = a.n() as usize;
            let c = gausses(a);
            let mut m = Mixture::new_unchecked(w, std_tags(k));
            match m.set_components(c) {
                Ok(()) => format!("U {} {}", tok(m.weights()), wr_tags(m.components())),
                Err(e) => format!("{} {} {}", err_tok(&e), tok(m.weights()), wr_tags(m.components())),
            }
        }
        "mix.combine" => {
            let ms: Vec<Mixture<Gaussian>> = a.list(|a| {
                let w = weights(a);
                let c = gausses(a);
                Mixture::new_unchecked(w, c)
            });
            let m = Mixture::combine(ms);
            format!("{} {}", tok(m.weights()), wr_tags(m.components()))
        }
        "mix.pairs_roundtrip" => {
            let ps: Vec<(f64, Gaussian)> = a.list(|a| {
                let w = a.f();
                let mu = a.f();
                let sigma = a.f();
                (w, Gaussian::new_unchecked(mu, sigma))
            });
            match Mixture::try_from(ps) {
                Ok(m) => {
                    let back: Vec<(f64, Gaussian)> = m.into();
                    wr_pairs(&back)
                }
                Err(e) => err_tok(&e),
            }
        }
        "mix.to_pairs" => {
            let m = Mixture::new_unchecked(weights(a), gausses(a));
            let back: Vec<(f64, Gaussian)> = m.into();
            wr_pairs(&back)
        }
        // ---------------------------------------------------------------- draws
        "mix.draw_index" => {
            let w = weights(a);
            let word = a.n();
            let mut rng = Script::new(vec![word]);
            // the expression of Mixture::draw, mixture.rs:419
            let k: usize = rv::misc::pflips(&w, 1, &mut rng)[0];
            tok(&k)
        }
        "mix.gauss.draw" => {
            let m = Mixture::new_unchecked(weights(a), gausses(a));
            let word = a.n();
            let mut rng = Script::new(vec![word, ZERO_NORMAL_WORD]);
            let x: f64 = m.draw(&mut rng);
            tok(&x)
        }
        // the ln_weights cache after a weight mutation: ln_f before / after set_weights vs a fresh mixture
        "mix.gauss.ln_f_after_set_weights" => {
            let w0 = weights(a);
            let g = gausses(a);
            let w1 = weights(a);
            let x = a.f();
            let mut m = Mixture::new_unchecked(w0, g.clone());
            let _ = m.ln_f(&x);
            let st = match m.set_weights(w1.clone()) {
                Ok(()) => "U".to_string(),
                Err(e) => err_tok(&e),
            };
            let fresh = Mixture::new_unchecked(m.weights().clone(), g);
            format!("{} {} {}", st, tok(&m.ln_f(&x)), tok(&fresh.ln_f(&x)))
        }
        // implementation-only probe (no model): QuadBounds for Mixture<Poisson>, mixture.rs:917-945
        "mix.pois.quad_bounds" => {
            let m = Mixture::new_unchecked(weights(a), poissons(a));
            let (l, r) = m.quad_bounds();
            format!("{} {}", tok(&l), tok(&r))
        }
        _ => return None,
    })
}
