//! C13B: implementation-side ops for the weighted index samplers and list helpers of `rv::misc` (src/misc/func.rs).
//! Every op calls the REAL function with a scripted generator (`Script`, replays the given 64-bit words).
//!
//! line format:  <op> - <args…> <words as L<n> w…>       (kind token is ignored, use `-`)
//!   pflip        - L<k> w…  (N | S sum)  L1 word            -> index | PANIC
//!   pflips       - L<k> w…  L<n> word…                       -> L<n> index… | PANIC        (n = number of words)
//!   ln_pflips    - L<k> lnw…  (T|F normed)  L<n> word…       -> L<n> index… | PANIC
//!   ln_pflip     - L<k> lnw…  L<k> word…                     -> index | PANIC
//!   gumbel_pflip - L<k> w…  L<k> word…                       -> index | PANIC
//!   argmax       - L<k> x…                                   -> L<m> index…
//!   log_product  - L<k> x…                                   -> f64
//!   cumsum       - L<k> x…                                   -> L<k> f64…
//!   std01 / open01 / uniform01 - L1 word                     -> f64  (rng.gen::<f64>() / Open01 / Uniform::new(0.0, 1.0))
#![allow(unused)]
use crate::wire::*;
use rand::distributions::{Open01, Uniform};
use rand::Rng;

pub fn dispatch(op: &str, _kind: &str, a: &mut Args) -> Option<String> {
    Some(match op {
        "pflip" => {
            let ws = a.list(|a| a.f());
            let sum = a.opt(|a| a.f());
            let mut rng = Script::new(a.words());
            tok(&rv::misc::pflip(&ws, sum, &mut rng))
        }
        "pflips" => {
            let ws = a.list(|a| a.f());
            let words = a.words();
            let n = words.len();
            let mut rng = Script::new(words);
            tok(&rv::misc::pflips(&ws, n, &mut rng))
        }
        "ln_pflips" => {
            let ws = a.list(|a| a.f());
            let normed = a.b();
            let words = a.words();
            let n = words.len();
            let mut rng = Script::new(words);
            tok(&rv::misc::ln_pflips(&ws, n, normed, &mut rng))
        }
        "ln_pflip" => {
            let ws = a.list(|a| a.f());
            let mut rng = Script::new(a.words());
            tok(&rv::misc::ln_pflip(&ws, false, &mut rng))
        }
        "gumbel_pflip" => {
            let ws = a.list(|a| a.f());
            let mut rng = Script::new(a.words());
            tok(&rv::misc::gumbel_pflip(&ws, &mut rng))
        }
        "argmax" => {
            let xs = a.list(|a| a.f());
            tok(&rv::misc::argmax(&xs))
        }
        "log_product" => {
            let xs = a.list(|a| a.f());
            tok(&rv::misc::log_product(xs.into_iter()))
        }
        "cumsum" => {
            let xs = a.list(|a| a.f());
            tok(&rv::misc::cumsum(&xs))
        }
        "std01" => {
            let mut rng = Script::new(a.words());
            let x: f64 = rng.gen::<f64>();
            tok(&x)
        }
        "open01" => {
            let mut rng = Script::new(a.words());
            let x: f64 = rng.sample(Open01);
            tok(&x)
        }
        "uniform01" => {
            let mut rng = Script::new(a.words());
            let u = Uniform::new(0.0, 1.0);
            let x: f64 = rng.sample(u);
            tok(&x)
        }
        _ => return None,
    })
}
