//! C05S — implementation-side ops for the conjugate pair `StickBreaking` / `StickBreakingDiscrete`
//! (`src/experimental/stick_breaking_process/stick_breaking.rs`, `sbd_stat.rs`).
//! Lean counterparts (same op names and formats): lean/RvModel/Hand/DispatchC05S.lean (model Hand/StickConj.lean).
//!
//!   <sb>  = <alpha:f64> L<k> a_1 b_1 … a_k b_k     tail UnitPowerLaw(alpha), prefix Beta(a_i, b_i)  (L<k> counts PAIRS)
//!           built through serde (`break_prefix` is private; serde does not validate, exactly like a deserialised model)
//!   <dos> = D L<n> x…  |  Q L<m> counts…          DataOrSuffStat::Data / ::SuffStat (statistic built through serde: trailing zeros kept)
//!
//!   sb.posterior <sb> <dos> -> <sb>                 sb.posterior_stat <sb> L<m> counts -> <sb>   (posterior_from_suffstat)
//!   sb.ln_m | sb.ln_m_cache | sb.m  <sb> <dos> -> f64
//!   sb.ln_pp | sb.pp  <sb> <y> <dos> -> f64          sb.ln_pp_cache | sb.pp_cache <sb> <dos> L<j> ys -> L<j> f64 (one cache reused)
//!   sb.ln_f | sb.f  <sb> L<k> w -> f64               sb.breaks L<k> w -> L<k> b      sb.weights L<k> b -> L<k> w
//!   sbstat.observe_forget L<m> counts <j> (o <i> | f <i>)*j -> L<m'> counts L<m'> s c … <n>
//!   sbstat.from_data L<n> xs -> the same three fields
//!   sbd.ln_f_stat L<k> breaks L<m> counts -> f64 | E:NeedsRng (m > k)
//!   FRESH seeded sequences — `StickSequence::new(UnitPowerLaw(alpha), Some(seed))`, nothing realised when the op starts; the `L<k> breaks`
//!   (first k breaks of that sequence, from `stick.breaks`) are for the model only and ignored here:
//!   sbd.ln_f_stat_fresh  <alpha> <seed> L<k> breaks L<m> counts       -> f64           ln_f_stat is the FIRST call on the object
//!   sbd.sum_ln_f_fresh   <alpha> <seed> L<k> breaks L<n> xs           -> f64           sum of ln_f(x) in order on another fresh object
//!   sbd.ln_f_stat_states <alpha> <seed> L<k> breaks L<m> counts <ext> -> f64 f64 f64   ln_f_stat fresh; again; after ln_f(&ext)
//! A panic of the real code is caught by the main loop (`PANIC`).
#![allow(unused)]
use crate::wire::*;
use rv::data::DataOrSuffStat;
use rv::experimental::stick_breaking_process::{
    BreakSequence, PartialWeights, StickBreaking, StickBreakingDiscrete, StickBreakingDiscreteSuffStat, StickSequence,
};
use rv::prelude::*;
use rv::traits::*;

fn jf(x: f64) -> serde_json::Value {
    serde_json::Number::from_f64(x).map(serde_json::Value::Number).unwrap_or(serde_json::Value::Null)
}

fn rd_sb(a: &mut Args) -> StickBreaking {
    let alpha = a.f();
    let pre: Vec<(f64, f64)> = a.list(|a| {
        let x = a.f();
        let y = a.f();
        (x, y)
    });
    if pre.is_empty() {
        // the public route
        return StickBreaking::new(UnitPowerLaw::new_unchecked(alpha));
    }
    let v = serde_json::json!({
        "break_prefix": pre.iter().map(|(x, y)| serde_json::json!({"alpha": jf(*x), "beta": jf(*y)})).collect::<Vec<_>>(),
        "break_tail": {"alpha": jf(alpha)},
    });
    serde_json::from_value(v).expect("wire: StickBreaking")
}

fn wr_sb(sb: &StickBreaking) -> String {
    let pre = sb.break_prefix();
    let mut out = vec![tok(&sb.break_tail().alpha()), format!("L{}", pre.len())];
    for b in pre {
        out.push(tok(&b.alpha()));
        out.push(tok(&b.beta()));
    }
    out.join(" ")
}

fn stat_of_counts(counts: Vec<usize>) -> StickBreakingDiscreteSuffStat {
    serde_json::from_value(serde_json::json!({ "counts": counts })).expect("wire: stat")
}

fn rd_stat(a: &mut Args) -> StickBreakingDiscreteSuffStat {
    stat_of_counts(a.list(|a| a.n() as usize))
}

enum Dos {
    D(Vec<usize>),
    Q(StickBreakingDiscreteSuffStat),
}

fn rd_dos(a: &mut Args) -> Dos {
    match a.tag().as_str() {
        "D" => Dos::D(a.list(|a| a.n() as usize)),
        "Q" => Dos::Q(rd_stat(a)),
        t => panic!("wire: bad DataOrSuffStat {t}"),
    }
}

impl Dos {
    fn get(&self) -> DataOrSuffStat<'_, usize, StickBreakingDiscrete> {
        match self {
            Dos::D(xs) => DataOrSuffStat::Data(xs),
            Dos::Q(s) => DataOrSuffStat::SuffStat(s),
        }
    }
}

fn wr_stat(s: &StickBreakingDiscreteSuffStat) -> String {
    let pairs = s.break_pairs();
    let mut out = vec![tok(s.counts()), format!("L{}", pairs.len())];
    for (x, y) in pairs {
        out.push(tok(&x));
        out.push(tok(&y));
    }
    out.push(tok(&<StickBreakingDiscreteSuffStat as SuffStat<usize>>::n(s)));
    out.join(" ")
}

pub fn dispatch(op: &str, kind: &str, a: &mut Args) -> Option<String> {
    Some(match op {
        "sb.posterior" => {
            let sb = rd_sb(a);
            let x = rd_dos(a);
            wr_sb(&sb.posterior(&x.get()))
        }
        "sb.posterior_stat" => {
            let sb = rd_sb(a);
            let st = rd_stat(a);
            wr_sb(&sb.posterior_from_suffstat(&st))
        }
        "sb.ln_m" => {
            let sb = rd_sb(a);
            let x = rd_dos(a);
            tok(&sb.ln_m(&x.get()))
        }
        "sb.ln_m_cache" => {
            let sb = rd_sb(a);
            let x = rd_dos(a);
            let cache = sb.ln_m_cache();
            tok(&sb.ln_m_with_cache(&cache, &x.get()))
        }
        "sb.m" => {
            let sb = rd_sb(a);
            let x = rd_dos(a);
            tok(&sb.m(&x.get()))
        }
        "sb.ln_pp" => {
            let sb = rd_sb(a);
            let y = a.n() as usize;
            let x = rd_dos(a);
            tok(&sb.ln_pp(&y, &x.get()))
        }
        "sb.ln_pp_cache" => {
            let sb = rd_sb(a);
            let x = rd_dos(a);
            let ys: Vec<usize> = a.list(|a| a.n() as usize);
            let cache = sb.ln_pp_cache(&x.get());
            let out: Vec<f64> = ys.iter().map(|y| sb.ln_pp_with_cache(&cache, y)).collect();
            tok(&out)
        }
        "sb.pp" => {
            let sb = rd_sb(a);
            let y = a.n() as usize;
            let x = rd_dos(a);
            tok(&sb.pp(&y, &x.get()))
        }
        "sb.pp_cache" => {
            let sb = rd_sb(a);
            let x = rd_dos(a);
            let ys: Vec<usize> = a.list(|a| a.n() as usize);
            let cache = sb.ln_pp_cache(&x.get());
            let out: Vec<f64> = ys.iter().map(|y| sb.pp_with_cache(&cache, y)).collect();
            tok(&out)
        }
        "sb.ln_f" => {
            let sb = rd_sb(a);
            let w = PartialWeights(a.list(|a| a.f()));
            tok(&sb.ln_f(&w))
        }
        "sb.f" => {
            let sb = rd_sb(a);
            let w = PartialWeights(a.list(|a| a.f()));
            tok(&sb.f(&w))
        }
        "sb.breaks" => {
            let w = PartialWeights(a.list(|a| a.f()));
            tok(&BreakSequence::from(&w).0)
        }
        "sb.weights" => {
            let b = BreakSequence(a.list(|a| a.f()));
            tok(&PartialWeights::from(&b).0)
        }
        "sbstat.observe_forget" => {
            let mut st = rd_stat(a);
            let j = a.n() as usize;
            for _ in 0..j {
                let which = a.tag();
                let i = a.n() as usize;
                match which.as_str() {
                    "o" => st.observe(&i),
                    "f" => st.forget(&i),
                    t => panic!("wire: bad stat op {t}"),
                }
            }
            wr_stat(&st)
        }
        "sbstat.from_data" => {
            let xs: Vec<usize> = a.list(|a| a.n() as usize);
            wr_stat(&StickBreakingDiscreteSuffStat::from(&xs[..]))
        }
        "sbd.ln_f_stat" => {
            let bs: Vec<f64> = a.list(|a| a.f());
            let st = rd_stat(a);
            if st.counts().len() > bs.len() {
                return Some("E:NeedsRng".to_string());
            }
            let seq = StickSequence::new(UnitPowerLaw::new_unchecked(1.0), Some(0));
            for p in &bs {
                seq.push_break(*p);
            }
            let sbd = StickBreakingDiscrete::new(seq);
            tok(&sbd.ln_f_stat(&st))
        }
        "sbd.ln_f_stat_fresh" => {
            let sbd = fresh_sbd(a);
            let _bs: Vec<f64> = a.list(|a| a.f());
            let st = rd_stat(a);
            tok(&sbd.ln_f_stat(&st))
        }
        "sbd.sum_ln_f_fresh" => {
            let sbd = fresh_sbd(a);
            let _bs: Vec<f64> = a.list(|a| a.f());
            let xs: Vec<usize> = a.list(|a| a.n() as usize);
            let s: f64 = xs.iter().map(|x| sbd.ln_f(x)).sum();
            tok(&s)
        }
        "sbd.ln_f_stat_states" => {
            let sbd = fresh_sbd(a);
            let _bs: Vec<f64> = a.list(|a| a.f());
            let st = rd_stat(a);
            let ext = a.n() as usize;
            let v1 = sbd.ln_f_stat(&st);
            let v2 = sbd.ln_f_stat(&st);
            let _ = sbd.ln_f(&ext);
            let v3 = sbd.ln_f_stat(&st);
            format!("{} {} {}", tok(&v1), tok(&v2), tok(&v3))
        }
        _ => return None,
    })
}

/// a StickBreakingDiscrete over a NEW seeded StickSequence (nothing realised yet): reads `<alpha> <seed>`
fn fresh_sbd(a: &mut Args) -> StickBreakingDiscrete {
    let alpha = a.f();
    let seed = a.n();
    StickBreakingDiscrete::new(StickSequence::new(UnitPowerLaw::new_unchecked(alpha), Some(seed)))
}
