//! C17 — Gaussian process: ops that run the REAL `rv::process::gaussian::{GaussianProcess, GaussianProcessPrediction,
//! NoiseModel}` code.  Same line format as `lean/RvModel/Hand/DispatchC17.lean`:
//!
//!   tree  ::= const <c> | rbf <l> | add <tree> <tree> | mul <tree> <tree>
//!   noise ::= uniform <sigma> | perpoint L<k> <v…>
//!   X, Xq ::= <n> <d> <n·d coordinates, row-major>        (every row of Xq becomes one `DVector` index)
//!   y     ::= L<n> <y…>
//!   GP    ::= <tree> <noise> <X> <y>
//!
//! ops: see the table in `lean/RvModel/Hand/DispatchC17.lean` (same names, same formats).
//!
//! `K17` is an enum over `ConstantKernel`, `RBFKernel`, `Box<AddKernel<K17, K17>>`, `Box<ProductKernel<K17, K17>>` whose
//! `impl Kernel` only forwards (no logic of its own), so that one op serves kernels of any shape.
//! `Spy` is a user-defined kernel (the `Kernel` trait is public) that records the first argument of `covariance`; it is
//! used by `gp.query_layout` to read the query matrix `sample_function` assembles (the field `xs` is private).
#![allow(unused)]
use crate::wire::*;
use nalgebra::base::constraint::{SameNumberOfColumns, ShapeConstraint};
use nalgebra::base::storage::Storage;
use nalgebra::{DMatrix, DVector, Dim, Matrix};
use rv::process::gaussian::kernel::*;
use rv::process::gaussian::{GaussianProcess, GaussianProcessError, NoiseModel};
use rv::process::RandomProcess;
use rv::traits::{Mean, Variance};
use std::cell::RefCell;

#[derive(Clone, Debug, PartialEq)]
pub enum K17 {
    Const(ConstantKernel),
    Rbf(RBFKernel),
    Add(Box<AddKernel<K17, K17>>),
    Mul(Box<ProductKernel<K17, K17>>),
}

macro_rules! fwd {
    ($s:expr, $k:ident => $e:expr) => {
        match $s {
            K17::Const($k) => $e,
            K17::Rbf($k) => $e,
            K17::Add($k) => $e,
            K17::Mul($k) => $e,
        }
    };
}

impl Kernel for K17 {
    fn n_parameters(&self) -> usize {
        fwd!(self, k => k.n_parameters())
    }
    fn covariance<R1, R2, C1, C2, S1, S2>(&self, x1: &Matrix<f64, R1, C1, S1>, x2: &Matrix<f64, R2, C2, S2>) -> DMatrix<f64>
    where
        R1: Dim,
        R2: Dim,
        C1: Dim,
        C2: Dim,
        S1: Storage<f64, R1, C1>,
        S2: Storage<f64, R2, C2>,
        ShapeConstraint: SameNumberOfColumns<C1, C2>,
    {
        fwd!(self, k => k.covariance(x1, x2))
    }
    fn is_stationary(&self) -> bool {
        fwd!(self, k => k.is_stationary())
    }
    fn diag<R, C, S>(&self, x: &Matrix<f64, R, C, S>) -> DVector<f64>
    where
        R: Dim,
        C: Dim,
        S: Storage<f64, R, C>,
    {
        fwd!(self, k => k.diag(x))
    }
    fn parameters(&self) -> DVector<f64> {
        fwd!(self, k => k.parameters())
    }
    fn reparameterize(&self, params: &[f64]) -> Result<Self, KernelError> {
        Ok(match self {
            K17::Const(k) => K17::Const(k.reparameterize(params)?),
            K17::Rbf(k) => K17::Rbf(k.reparameterize(params)?),
            K17::Add(k) => K17::Add(Box::new(k.reparameterize(params)?)),
            K17::Mul(k) => K17::Mul(Box::new(k.reparameterize(params)?)),
        })
    }
    // `consume_parameters` is the trait's default method (kernel/mod.rs:77-93): not forwarded, it is the code under test.
    fn covariance_with_gradient<R, C, S>(&self, x: &Matrix<f64, R, C, S>) -> Result<(DMatrix<f64>, CovGrad), CovGradError>
    where
        R: Dim,
        C: Dim,
        S: Storage<f64, R, C>,
    {
        fwd!(self, k => k.covariance_with_gradient(x))
    }
}

/// `GaussianProcess<K>: Serialize` needs `K: Serialize`; the kernel itself is not needed in the rendering (only the private
/// field `alpha` is read from it, see `alpha_of`), so it is written as a unit.
impl serde::Serialize for K17 {
    fn serialize<S: serde::Serializer>(&self, s: S) -> Result<S::Ok, S::Error> {
        s.serialize_unit()
    }
}

/// the PRIVATE cached field `alpha` of a process, through its public serde rendering (`float_roundtrip`: exact)
fn alpha_of(gp: &GaussianProcess<K17>) -> Vec<f64> {
    fn nums(v: &serde_json::Value, out: &mut Vec<f64>) -> bool {
        match v {
            serde_json::Value::Array(xs) if xs.iter().all(|x| x.is_number() || x.is_null()) => {
                out.extend(xs.iter().map(|x| x.as_f64().unwrap_or(f64::NAN)));
                true
            }
            _ => false,
        }
    }
    let v = serde_json::to_value(gp).expect("serde rendering of the process");
    let a = &v["alpha"];
    let mut out = Vec::new();
    // nalgebra renders a dynamic vector as its storage `[[data…], nrows, ncols]` (or as a plain list)
    if let serde_json::Value::Array(parts) = a {
        if let Some(first) = parts.first() {
            if first.is_array() && nums(first, &mut out) {
                return out;
            }
        }
    }
    if nums(a, &mut out) {
        return out;
    }
    panic!("alpha not found in the serde rendering: {}", a)
}

/// everything observable of a trained process at the query points:
/// `L<p> parameters  ln_m  L<n> alpha  L<nq> mean  L<nq²> cov  L<nq> variance`
fn state_block(gp: &GaussianProcess<K17>, xq: &[DVector<f64>]) -> String {
    let p = gp.sample_function(xq);
    format!(
        "{} {} {} {} {} {}",
        wr_vec(&gp.parameters()),
        tok(&gp.ln_m()),
        tok(&alpha_of(gp)),
        wr_vec(&p.mean().unwrap()),
        wr_mat(p.cov()),
        wr_vec(&p.variance().unwrap())
    )
}

thread_local! {
    static SPIED: RefCell<Option<DMatrix<f64>>> = RefCell::new(None);
}

/// records the first argument of the latest `covariance` call; the covariance itself is the zero matrix
#[derive(Clone, Debug, PartialEq)]
pub struct Spy;

impl Kernel for Spy {
    fn n_parameters(&self) -> usize {
        0
    }
    fn covariance<R1, R2, C1, C2, S1, S2>(&self, x1: &Matrix<f64, R1, C1, S1>, x2: &Matrix<f64, R2, C2, S2>) -> DMatrix<f64>
    where
        R1: Dim,
        R2: Dim,
        C1: Dim,
        C2: Dim,
        S1: Storage<f64, R1, C1>,
        S2: Storage<f64, R2, C2>,
        ShapeConstraint: SameNumberOfColumns<C1, C2>,
    {
        let copy = DMatrix::from_fn(x1.nrows(), x1.ncols(), |i, j| x1[(i, j)]);
        SPIED.with(|s| *s.borrow_mut() = Some(copy));
        DMatrix::zeros(x1.nrows(), x2.nrows())
    }
    fn is_stationary(&self) -> bool {
        true
    }
    fn diag<R, C, S>(&self, x: &Matrix<f64, R, C, S>) -> DVector<f64>
    where
        R: Dim,
        C: Dim,
        S: Storage<f64, R, C>,
    {
        DVector::zeros(x.nrows())
    }
    fn parameters(&self) -> DVector<f64> {
        DVector::zeros(0)
    }
    fn reparameterize(&self, _params: &[f64]) -> Result<Self, KernelError> {
        Ok(Spy)
    }
    fn covariance_with_gradient<R, C, S>(&self, x: &Matrix<f64, R, C, S>) -> Result<(DMatrix<f64>, CovGrad), CovGradError>
    where
        R: Dim,
        C: Dim,
        S: Storage<f64, R, C>,
    {
        Ok((DMatrix::zeros(x.nrows(), x.nrows()), CovGrad::zeros(x.nrows(), 0)))
    }
}

fn rd_tree(a: &mut Args) -> K17 {
    let t = a.tag();
    match t.as_str() {
        "const" => K17::Const(ConstantKernel::new_unchecked(a.f())),
        "rbf" => K17::Rbf(RBFKernel::new_unchecked(a.f())),
        "add" => {
            let x = rd_tree(a);
            let y = rd_tree(a);
            K17::Add(Box::new(AddKernel::new(x, y)))
        }
        "mul" => {
            let x = rd_tree(a);
            let y = rd_tree(a);
            K17::Mul(Box::new(ProductKernel::new(x, y)))
        }
        t => panic!("wire: bad kernel token {t}"),
    }
}

fn rd_noise(a: &mut Args) -> NoiseModel {
    let t = a.tag();
    match t.as_str() {
        "uniform" => NoiseModel::Uniform(a.f()),
        "perpoint" => NoiseModel::PerPoint(DVector::from_vec(a.list(|a| a.f()))),
        t => panic!("wire: bad noise token {t}"),
    }
}

/// `<n> <d> <row-major coordinates>` as a matrix whose ROWS are the points
fn rd_pts(a: &mut Args) -> DMatrix<f64> {
    let n = a.n() as usize;
    let d = a.n() as usize;
    let v: Vec<f64> = (0..n * d).map(|_| a.f()).collect();
    DMatrix::from_row_slice(n, d, &v)
}

/// `<n> <d> <row-major coordinates>` as the slice of indices `sample_function` takes: one `DVector` per point
fn rd_indices(a: &mut Args) -> Vec<DVector<f64>> {
    let n = a.n() as usize;
    let d = a.n() as usize;
    (0..n).map(|_| DVector::from_vec((0..d).map(|_| a.f()).collect::<Vec<f64>>())).collect()
}

fn wr_mat(m: &DMatrix<f64>) -> String {
    let mut v = Vec::with_capacity(m.nrows() * m.ncols());
    for i in 0..m.nrows() {
        for j in 0..m.ncols() {
            v.push(m[(i, j)]);
        }
    }
    tok(&v)
}

fn wr_vec(v: &DVector<f64>) -> String {
    tok(&v.iter().copied().collect::<Vec<f64>>())
}

fn wr_kerr(e: &KernelError) -> String {
    match e {
        KernelError::MissingParameters(n) => format!("E:MissingParameters {}", n),
        KernelError::ExtraneousParameters(n) => format!("E:ExtraneousParameters {}", n),
        e => err_tok(e),
    }
}

fn wr_gperr(e: &GaussianProcessError) -> String {
    match e {
        GaussianProcessError::KernelError(k) => wr_kerr(k),
        e => err_tok(e),
    }
}

fn rd_gp(a: &mut Args) -> Result<GaussianProcess<K17>, GaussianProcessError> {
    let k = rd_tree(a);
    let nm = rd_noise(a);
    let x = rd_pts(a);
    let y = DVector::from_vec(a.list(|a| a.f()));
    GaussianProcess::train(k, x, y, nm)
}

fn ln_m_at(gp: &GaussianProcess<K17>, th: &[f64]) -> Result<f64, GaussianProcessError> {
    let g = gp.clone().set_parameters(&DVector::from_vec(th.to_vec()))?;
    Ok(g.ln_m())
}

fn bits_eq(a: &DVector<f64>, b: &DVector<f64>) -> bool {
    a.len() == b.len() && a.iter().zip(b.iter()).all(|(x, y)| x.to_bits() == y.to_bits())
}

pub fn dispatch(op: &str, _kind: &str, a: &mut Args) -> Option<String> {
    if !op.starts_with("gp.") {
        return None;
    }
    macro_rules! gp {
        () => {
            match rd_gp(a) {
                Ok(g) => g,
                Err(e) => return Some(wr_gperr(&e)),
            }
        };
    }
    Some(match op {
        "gp.train" => {
            let k = rd_tree(a);
            let nm = rd_noise(a);
            let x = rd_pts(a);
            let y = DVector::from_vec(a.list(|a| a.f()));
            let gp = match GaussianProcess::train(k, x, y.clone(), nm) {
                Ok(g) => g,
                Err(e) => return Some(wr_gperr(&e)),
            };
            // `alpha` is private: recomputed by the very call `train` makes (`k_chol.solve(&y_train)`)
            let alpha = gp.k_chol().solve(&y);
            format!("{} {} {}", wr_mat(&gp.k_chol().l()), wr_vec(&alpha), wr_mat(gp.k_inv()))
        }
        "gp.ln_m" => {
            let gp = gp!();
            tok(&gp.ln_m())
        }
        "gp.ln_m_with_params" => {
            let gp = gp!();
            let th = a.list(|a| a.f());
            match gp.ln_m_with_params(&DVector::from_vec(th)) {
                Ok((v, g)) => format!("{} {}", tok(&v), wr_vec(&g)),
                Err(e) => wr_gperr(&e),
            }
        }
        "gp.ln_m_at" => {
            let gp = gp!();
            let th = a.list(|a| a.f());
            match ln_m_at(&gp, &th) {
                Ok(v) => tok(&v),
                Err(e) => wr_gperr(&e),
            }
        }
        "gp.ln_m_fd" => {
            let gp = gp!();
            let th = a.list(|a| a.f());
            let h = a.f();
            let mut out = Vec::with_capacity(th.len());
            for i in 0..th.len() {
                let mut up = th.clone();
                up[i] = th[i] + h;
                let mut dn = th.clone();
                dn[i] = th[i] - h;
                let u = match ln_m_at(&gp, &up) {
                    Ok(v) => v,
                    Err(e) => return Some(wr_gperr(&e)),
                };
                let d = match ln_m_at(&gp, &dn) {
                    Ok(v) => v,
                    Err(e) => return Some(wr_gperr(&e)),
                };
                out.push((u - d) / (2.0 * h));
            }
            tok(&out)
        }
        "gp.set_parameters" => {
            let gp = gp!();
            let th = a.list(|a| a.f());
            match gp.set_parameters(&DVector::from_vec(th)) {
                Ok(g) => wr_vec(&g.parameters()),
                Err(e) => wr_gperr(&e),
            }
        }
        "gp.state" => {
            let gp = gp!();
            let xq = rd_indices(a);
            state_block(&gp, &xq)
        }
        "gp.set_vs_fresh" => {
            // A = the process after `set_parameters(θ)`;  B = a process trained from scratch with `kernel.reparameterize(θ)` on the
            // same data and noise.  On error of `set_parameters`: the error token, then the state of the ORIGINAL process.
            let k = rd_tree(a);
            let nm = rd_noise(a);
            let x = rd_pts(a);
            let y = DVector::from_vec(a.list(|a| a.f()));
            let th = a.list(|a| a.f());
            let xq = rd_indices(a);
            let gp = match GaussianProcess::train(k.clone(), x.clone(), y.clone(), nm.clone()) {
                Ok(g) => g,
                Err(e) => return Some(wr_gperr(&e)),
            };
            match gp.clone().set_parameters(&DVector::from_vec(th.clone())) {
                Err(e) => format!("{} {}", wr_gperr(&e), state_block(&gp, &xq)),
                Ok(ga) => {
                    let kb = k.reparameterize(&th).expect("set_parameters accepted these parameters");
                    let gb = GaussianProcess::train(kb, x, y, nm).expect("set_parameters trained this kernel");
                    format!("{} {}", state_block(&ga, &xq), state_block(&gb, &xq))
                }
            }
        }
        "gp.predict_mean" => {
            let gp = gp!();
            let xq = rd_indices(a);
            let p = gp.sample_function(&xq);
            wr_vec(&p.mean().unwrap())
        }
        "gp.predict_cov" => {
            let gp = gp!();
            let xq = rd_indices(a);
            let p = gp.sample_function(&xq);
            wr_mat(p.cov())
        }
        "gp.predict_var" => {
            let gp = gp!();
            let xq = rd_indices(a);
            let p = gp.sample_function(&xq);
            wr_vec(&p.variance().unwrap())
        }
        "gp.predict_std" => {
            let gp = gp!();
            let xq = rd_indices(a);
            let p = gp.sample_function(&xq);
            wr_vec(&p.std())
        }
        "gp.predict_ln_f_mean" => {
            // `dist()` builds `MvGaussian::new_unchecked(mean, cov)`; its `ln_f`/`draw` factorise `cov` lazily and `unwrap()`
            let gp = gp!();
            let xq = rd_indices(a);
            let p = gp.sample_function(&xq);
            let m = p.mean().unwrap();
            tok(&rv::traits::HasDensity::ln_f(p.dist(), &m))
        }
        "gp.params_roundtrip" => {
            let gp = gp!();
            let xq = rd_indices(a);
            let gp2 = match gp.clone().set_parameters(&gp.parameters()) {
                Ok(g) => g,
                Err(e) => return Some(wr_gperr(&e)),
            };
            let (l1, l2) = (gp.ln_m(), gp2.ln_m());
            let m1 = gp.sample_function(&xq).mean().unwrap();
            let m2 = gp2.sample_function(&xq).mean().unwrap();
            let same = l1.to_bits() == l2.to_bits() && bits_eq(&m1, &m2) && bits_eq(&gp.parameters(), &gp2.parameters());
            format!("{} {} {} {} {}", tok(&same), tok(&l1), tok(&l2), wr_vec(&m1), wr_vec(&m2))
        }
        "gp.query_layout" => {
            let xq = rd_indices(a);
            let m = xq.first().map(|v| v.len()).unwrap_or(0);
            // one training point of the same dimension, unit noise: the zero covariance of `Spy` becomes the identity
            let gp = GaussianProcess::train(Spy, DMatrix::zeros(1, m), DVector::zeros(1), NoiseModel::Uniform(1.0)).expect("spy gp");
            SPIED.with(|s| *s.borrow_mut() = None);
            let _p = gp.sample_function(&xq);
            let got = SPIED.with(|s| s.borrow_mut().take()).expect("covariance not called");
            wr_mat(&got)
        }
        "gp.add_noise" => {
            let nm = rd_noise(a);
            let n = a.n() as usize;
            let flat = a.list(|a| a.f());
            let k = DMatrix::from_row_slice(n, n, &flat);
            match nm.add_noise_to_kernel(&k) {
                Ok(m) => wr_mat(&m),
                Err(_) => "E:MisshapenNoiseModel".to_string(),
            }
        }
        _ => return None,
    })
}
