//! C19 — implementation-side ops for `Partition`, `Crp::draw`, `StickSequence`, `StickBreakingDiscrete`.
//! Lean counterparts (same op names): lean/RvModel/Hand/DispatchC19.lean.
//!
//!   partition.from_z - L<n> z…                         -> `L<n> z… L<k> counts…` | `E:<Variant>`
//!   partition.ops    - L<n> z… <m> (append <k> | remove <ix>)*m
//!        start = `Partition::new()` when n = 0, else `from_z(z)` (its error ends the op: `E:<Variant>`)
//!        -> `L<m> status… L<n'> z… L<k'> counts…`, status = `U` | `E:<Variant>` | `E:PANIC`
//!           (a failing operation leaves the state as the real code left it)
//!   crp.draw        - <alpha> <n> L<w> words…            -> `L<n> z… L<k> counts…`   (scripted generator)
//!   crp.draw_seeded - <alpha> <n> <seed>                 -> the same with Xoshiro256Plus::seed_from_u64(seed)
//!   rng.words       - <seed> <N>                         -> `L<N> words…` of that generator
//!   stick.breaks    - <alpha> <seed> <N>                 -> `L<N> b…`: the first N breaks `breaker.draw(rng)`
//!   stick.weights   - <alpha> <seed> <m> req*m           -> answers in request order (one StickSequence, lazily)
//!   stick.threads   - <alpha> <seed> <nthreads> <m> req*m
//!        every thread serves ALL requests (thread t starts at request t·m/nthreads, wrapping) on a shared clone;
//!        -> per request the common answer, or `MISMATCH` when two threads disagree
//!   requests:  e <n> ensure_breaks   c <n> ccdf   w <n> weight   W <n> weights (raw)   P <n> weights truncated to n
//!              n num_weights_unstable   s <x> sf   F <x> cdf   f <x> f   i <p> invccdf   I <p> invcdf
//!              m L<k> ps… multi_invccdf_sorted   b <p> push_break
//!   answers:   U | float | L<k> floats | nat | L<k> nats | PANIC | HANG (invccdf with p <= 0 or NaN is not called:
//!              its loop `extend until last < p` cannot stop)
#![allow(unused)]
use crate::wire::*;
use rand::{RngCore, SeedableRng};
use rand_xoshiro::Xoshiro256Plus;
use rv::data::Partition;
use rv::experimental::stick_breaking_process::{StickBreakingDiscrete, StickSequence};
use rv::prelude::*;
use std::panic::{catch_unwind, AssertUnwindSafe};

fn wr_part(p: &Partition) -> String {
    format!("{} {}", tok(p.z()), tok(p.counts()))
}

#[derive(Clone)]
enum Req {
    Ensure(usize),
    Ccdf(usize),
    Weight(usize),
    Weights(usize),
    Prefix(usize),
    Num,
    Sf(usize),
    Cdf(usize),
    F(usize),
    Invccdf(f64),
    Invcdf(f64),
    Multi(Vec<f64>),
    Push(f64),
}

fn rd_reqs(a: &mut Args) -> Vec<Req> {
    let m = a.n() as usize;
    (0..m)
        .map(|_| match a.tag().as_str() {
            "e" => Req::Ensure(a.n() as usize),
            "c" => Req::Ccdf(a.n() as usize),
            "w" => Req::Weight(a.n() as usize),
            "W" => Req::Weights(a.n() as usize),
            "P" => Req::Prefix(a.n() as usize),
            "n" => Req::Num,
            "s" => Req::Sf(a.n() as usize),
            "F" => Req::Cdf(a.n() as usize),
            "f" => Req::F(a.n() as usize),
            "i" => Req::Invccdf(a.f()),
            "I" => Req::Invcdf(a.f()),
            "m" => Req::Multi(a.list(|a| a.f())),
            "b" => Req::Push(a.f()),
            t => panic!("wire: bad request {t}"),
        })
        .collect()
}

fn serve(sbd: &StickBreakingDiscrete, r: &Req) -> String {
    let sticks = sbd.stick_sequence();
    let res = catch_unwind(AssertUnwindSafe(|| match r {
        Req::Ensure(n) => {
            sticks.ensure_breaks(*n);
            "U".to_string()
        }
        Req::Ccdf(n) => tok(&sticks.ccdf(*n)),
        Req::Weight(n) => tok(&sticks.weight(*n)),
        Req::Weights(n) => tok(&sticks.weights(*n).0),
        Req::Prefix(n) => {
            let w = sticks.weights(*n).0;
            tok(&w[..*n])
        }
        Req::Num => tok(&sticks.num_weights_unstable()),
        Req::Sf(x) => tok(&sbd.sf(x)),
        Req::Cdf(x) => tok(&sbd.cdf(x)),
        Req::F(x) => tok(&sbd.f(x)),
        Req::Invccdf(p) => {
            if !(*p > 0.0) {
                "HANG".to_string()
            } else {
                tok(&sbd.invccdf(*p))
            }
        }
        Req::Invcdf(p) => {
            if !(1.0 - *p > 0.0) {
                "HANG".to_string()
            } else {
                tok(&sbd.invcdf(*p))
            }
        }
        Req::Multi(ps) => {
            if !ps.is_empty() && !(ps[0] > 0.0) {
                "HANG".to_string()
            } else {
                tok(&sbd.multi_invccdf_sorted(ps))
            }
        }
        Req::Push(p) => {
            sticks.push_break(*p);
            "U".to_string()
        }
    }));
    res.unwrap_or_else(|_| "PANIC".to_string())
}

pub fn dispatch(op: &str, kind: &str, a: &mut Args) -> Option<String> {
    Some(match op {
        "partition.from_z" => {
            let z: Vec<usize> = a.list(|a| a.n() as usize);
            match Partition::from_z(z) {
                Ok(p) => wr_part(&p),
                Err(e) => err_tok(&e),
            }
        }
        "partition.ops" => {
            let z: Vec<usize> = a.list(|a| a.n() as usize);
            let mut p = if z.is_empty() {
                Partition::new()
            } else {
                match Partition::from_z(z) {
                    Ok(p) => p,
                    Err(e) => return Some(err_tok(&e)),
                }
            };
            let m = a.n() as usize;
            let mut status: Vec<String> = Vec::with_capacity(m);
            for _ in 0..m {
                let which = a.tag();
                let arg = a.n() as usize;
                let r = catch_unwind(AssertUnwindSafe(|| match which.as_str() {
                    "append" => p.append(arg),
                    "remove" => p.remove(arg),
                    t => panic!("wire: bad partition op {t}"),
                }));
                status.push(match r {
                    Ok(Ok(())) => "U".to_string(),
                    Ok(Err(e)) => err_tok(&e),
                    Err(_) => "E:PANIC".to_string(),
                });
            }
            format!("L{}{}{} {}", m, if m > 0 { " " } else { "" }, status.join(" "), wr_part(&p))
        }
        "crp.draw" => {
            let alpha = a.f();
            let n = a.n() as usize;
            let mut rng = Script::new(a.words());
            let p: Partition = Crp::new_unchecked(alpha, n).draw(&mut rng);
            wr_part(&p)
        }
        "crp.draw_seeded" => {
            let alpha = a.f();
            let n = a.n() as usize;
            let mut rng = Xoshiro256Plus::seed_from_u64(a.n());
            let p: Partition = Crp::new_unchecked(alpha, n).draw(&mut rng);
            wr_part(&p)
        }
        "rng.words" => {
            let mut rng = Xoshiro256Plus::seed_from_u64(a.n());
            let n = a.n() as usize;
            let ws: Vec<u64> = (0..n).map(|_| rng.next_u64()).collect();
            tok(&ws)
        }
        "stick.breaks" => {
            let breaker = UnitPowerLaw::new_unchecked(a.f());
            let mut rng = Xoshiro256Plus::seed_from_u64(a.n());
            let n = a.n() as usize;
            let bs: Vec<f64> = (0..n).map(|_| breaker.draw(&mut rng)).collect();
            tok(&bs)
        }
        "stick.weights" => {
            let breaker = UnitPowerLaw::new_unchecked(a.f());
            let seed = a.n();
            let reqs = rd_reqs(a);
            let sbd = StickBreakingDiscrete::new(StickSequence::new(breaker, Some(seed)));
            reqs.iter().map(|r| serve(&sbd, r)).collect::<Vec<_>>().join(" ")
        }
        "stick.threads" => {
            let breaker = UnitPowerLaw::new_unchecked(a.f());
            let seed = a.n();
            let nthreads = (a.n() as usize).max(1);
            let reqs = rd_reqs(a);
            let m = reqs.len();
            let sticks = StickSequence::new(breaker, Some(seed));
            let handles: Vec<_> = (0..nthreads)
                .map(|t| {
                    let sbd = StickBreakingDiscrete::new(sticks.clone());
                    let reqs = reqs.clone();
                    std::thread::spawn(move || {
                        let start = if m == 0 { 0 } else { t * m / nthreads };
                        let mut out = vec![String::new(); m];
                        for j in 0..m {
                            let ix = (start + j) % m;
                            out[ix] = serve(&sbd, &reqs[ix]);
                        }
                        out
                    })
                })
                .collect();
            let outs: Vec<Vec<String>> = handles.into_iter().map(|h| h.join().expect("thread")).collect();
            (0..m)
                .map(|ix| {
                    if outs.iter().all(|o| o[ix] == outs[0][ix]) {
                        outs[0][ix].clone()
                    } else {
                        "MISMATCH".to_string()
                    }
                })
                .collect::<Vec<_>>()
                .join(" ")
        }
        _ => return None,
    })
}
