//! token reader / writer of the line protocol (mirrors lean/RvModel/Wire.lean)
#[derive(Clone)]
pub struct Args {
    toks: Vec<String>,
    i: usize,
}

impl Args {
    pub fn new(toks: Vec<String>) -> Self {
        Args { toks, i: 0 }
    }
    pub fn tag(&mut self) -> String {
        let t = self.toks.get(self.i).cloned().unwrap_or_else(|| panic!("wire: eof"));
        self.i += 1;
        t
    }
    pub fn f(&mut self) -> f64 {
        let t = self.tag();
        if t == "xNaN" {
            return f64::NAN;
        }
        assert!(t.starts_with('x'), "wire: bad float {t}");
        f64::from_bits(u64::from_str_radix(&t[1..], 16).expect("wire: hex"))
    }
    pub fn n(&mut self) -> u64 {
        self.tag().parse::<u64>().expect("wire: nat")
    }
    pub fn i(&mut self) -> i64 {
        self.tag().parse::<i64>().expect("wire: int")
    }
    pub fn b(&mut self) -> bool {
        match self.tag().as_str() {
            "T" => true,
            "F" => false,
            t => panic!("wire: bad bool {t}"),
        }
    }
    pub fn list<T>(&mut self, mut f: impl FnMut(&mut Args) -> T) -> Vec<T> {
        let t = self.tag();
        assert!(t.starts_with('L'), "wire: bad list {t}");
        let n: usize = t[1..].parse().expect("wire: len");
        (0..n).map(|_| f(self)).collect()
    }
    pub fn opt<T>(&mut self, mut f: impl FnMut(&mut Args) -> T) -> Option<T> {
        match self.tag().as_str() {
            "N" => None,
            "S" => Some(f(self)),
            t => panic!("wire: bad option {t}"),
        }
    }
    pub fn rest(&self) -> usize {
        self.toks.len() - self.i
    }
}

pub trait Tok {
    fn tok(&self) -> String;
}
impl Tok for f64 {
    fn tok(&self) -> String {
        if self.is_nan() { "xNaN".to_string() } else { format!("x{:016x}", self.to_bits()) }
    }
}
impl Tok for f32 {
    fn tok(&self) -> String {
        (*self as f64).tok()
    }
}
macro_rules! tok_int { ($($t:ty),*) => { $(impl Tok for $t { fn tok(&self) -> String { format!("{}", self) } })* } }
tok_int!(u8, u16, u32, u64, usize, i8, i16, i32, i64, isize);
impl Tok for bool {
    fn tok(&self) -> String {
        if *self { "T".into() } else { "F".into() }
    }
}
impl Tok for () {
    fn tok(&self) -> String {
        "U".into()
    }
}
impl<T: Tok + ?Sized> Tok for &T {
    fn tok(&self) -> String {
        (**self).tok()
    }
}
impl<T: Tok> Tok for [T] {
    fn tok(&self) -> String {
        let mut v = vec![format!("L{}", self.len())];
        v.extend(self.iter().map(|x| x.tok()));
        v.join(" ")
    }
}
impl<T: Tok> Tok for Vec<T> {
    fn tok(&self) -> String {
        self[..].tok()
    }
}
impl<T: Tok> Tok for Option<T> {
    fn tok(&self) -> String {
        match self {
            None => "N".into(),
            Some(x) => format!("S {}", x.tok()),
        }
    }
}
impl<A: Tok, B: Tok> Tok for (A, B) {
    fn tok(&self) -> String {
        format!("{} {}", self.0.tok(), self.1.tok())
    }
}
impl<A: Tok, B: Tok, C: Tok> Tok for (A, B, C) {
    fn tok(&self) -> String {
        format!("{} {} {}", self.0.tok(), self.1.tok(), self.2.tok())
    }
}
pub fn tok<T: Tok + ?Sized>(x: &T) -> String {
    x.tok()
}
/// error value -> `E:<Variant>` (variant name from the Debug rendering)
pub fn err_tok<E: std::fmt::Debug>(e: &E) -> String {
    let s = format!("{:?}", e);
    let v: String = s.chars().take_while(|c| c.is_alphanumeric() || *c == '_').collect();
    format!("E:{}", v)
}

/// fields of a serialised struct in the given order (fallback writer for structs without public getters)
pub fn serde_fields(v: &serde_json::Value, names: &[&str]) -> String {
    fn one(x: &serde_json::Value) -> String {
        match x {
            serde_json::Value::Null => "xNaN".to_string(),
            serde_json::Value::Bool(b) => tok(b),
            serde_json::Value::Number(n) => {
                if n.is_u64() {
                    format!("{}", n.as_u64().unwrap())
                } else if n.is_i64() {
                    format!("{}", n.as_i64().unwrap())
                } else {
                    tok(&n.as_f64().unwrap())
                }
            }
            serde_json::Value::Array(xs) => {
                let mut out = vec![format!("L{}", xs.len())];
                out.extend(xs.iter().map(one));
                out.join(" ")
            }
            _ => "?".to_string(),
        }
    }
    names.iter().map(|n| one(&v[*n])).collect::<Vec<_>>().join(" ")
}

/// scripted generator: returns the given 64-bit words in order, then repeats the last one forever.
/// `next_u32` takes the HIGH 32 bits of the next word (as rand's default for 64-bit generators does not — note:
/// rand_core's `next_u32` for a u64 generator is implementation-defined; here it is `(next_u64() >> 32)`).
pub struct Script {
    pub words: Vec<u64>,
    pub i: usize,
}
impl Script {
    pub fn new(words: Vec<u64>) -> Self {
        Script { words, i: 0 }
    }
    pub fn consumed(&self) -> usize {
        self.i
    }
}
impl rand::RngCore for Script {
    fn next_u32(&mut self) -> u32 {
        (self.next_u64() >> 32) as u32
    }
    fn next_u64(&mut self) -> u64 {
        let w = if self.words.is_empty() { 0 } else { self.words[self.i.min(self.words.len() - 1)] };
        self.i += 1;
        w
    }
    fn fill_bytes(&mut self, dest: &mut [u8]) {
        for c in dest.chunks_mut(8) {
            let w = self.next_u64().to_le_bytes();
            let n = c.len();
            c.copy_from_slice(&w[..n]);
        }
    }
    fn try_fill_bytes(&mut self, dest: &mut [u8]) -> Result<(), rand::Error> {
        self.fill_bytes(dest);
        Ok(())
    }
}
impl Args {
    /// a list of u64 generator words: `L<n> w1 … wn` (decimal)
    pub fn words(&mut self) -> Vec<u64> {
        self.list(|a| a.n())
    }
}
